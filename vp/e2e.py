"""End-to-end engine: the real filter between two reference printers, a reference episode automaton
and the shadow-state monitor.  Produces a trace the per-property oracles evaluate.
DESIGN.md sections 2.2 - 2.5."""
import re
import time

from .refprinter import Printer, tokenize
from .harness import Core, depth_in, border_eps, norm_region, hooked_state

TOL = 1e-6
# K3 (arcs under G91) was repaired in /repo (see known_findings.json "fixed"); the attribution rule is kept, switched off, so
# that a regression shows up as an ordinary violation and not as a known finding
TAINT_ARC_UNDER_G91 = False
END_EVENTS = ("PrintDone", "PrintFailed", "PrintCancelling", "PrintCancelled", "Error")


class Truncated(Exception):
    def __init__(self, reason):
        Exception.__init__(self, reason)
        self.reason = reason


def exact_depth_sign(regions, x, y):
    """Exact closed-set membership for the exact-border class: +1 inside/on border, -1 outside."""
    from fractions import Fraction as F
    fx, fy = F(x), F(y)
    for r in regions:
        r = norm_region(r)
        if r[0] == "rect":
            if F(r[1]) <= fx <= F(r[3]) and F(r[2]) <= fy <= F(r[4]):
                return 1
        else:
            rad = F(r[3])
            if rad >= 0 and (fx - F(r[1])) ** 2 + (fy - F(r[2])) ** 2 <= rad * rad:
                return 1
    return -1


class Trace(object):
    def __init__(self, case):
        self.case = case
        self.steps = []
        self.truncated = None
        self.first_div = None        # (idx, cmd, what, mechanism) of the earliest divergence (reporting only)
        self.div_active = {}
        self.div_log = []
        self.taints = []             # dict(start, end, mech): see mechanism_at
        self.diag = []               # diagnostic invariant failures (never a verdict)
        self.slow = 0
        self.exc = None              # (idx, cmd, repr) exception raised by the code under observation
        self.episodes = []           # dict(open=idx, close=idx|None, by=...)
        self.final = None
        self.kmis = []               # dict(axis, start, end): tracked frame differs from what K2's own arithmetic predicts
        self.kmis_active = {}
        self.kmis_steps = 0
        self.residues = []           # dict(axis, start, end, value, mech): constant physical offset left behind, see Engine._residue
        self.res_active = {}

    def mechanism_at(self, idx, since=None, residues=True):
        """Known-finding mechanism explaining a violation at step idx (first-cause rule): the mechanism of the earliest
        tracking divergence that is active at that step; None when there is none or it is unexplained."""
        m = self._mechanism_at(idx, since)
        if m is None and residues and not self._anything_active(idx, since):
            # nothing diverges in the filter's tracking at this step, but the tool may still sit at a constant offset that an
            # explained divergence left behind earlier (the offset survives relative moves, and absolute ones once a G92 was
            # executed at the offset position, until the axis is homed): the after-effect has the cause of its first step
            lo = idx if since is None else min(idx, since)
            res = [e for e in self.residues if e["start"] <= idx and (e["end"] is None or lo < e["end"])]
            if res and all(e["mech"] is not None for e in res):
                m = min(res, key=lambda e: e["start"])["mech"]
        if m == "g92_xyz_offset_sign" and K2_MODEL_DECIDES:
            # K2 is recorded by its exact arithmetic: a tracked frame that differs from what that arithmetic predicts is something else
            lo = idx if since is None else min(idx, since)
            if any(e["start"] <= idx and (e["end"] is None or lo < e["end"]) for e in self.kmis):
                return None
        return m

    def _anything_active(self, idx, since=None):
        lo = idx if since is None else min(idx, since)
        return any(e["start"] <= idx and (e["end"] is None or lo < e["end"]) for e in self.div_log + self.taints)

    def _mechanism_at(self, idx, since=None):
        lo = idx if since is None else min(idx, since)
        act = [e for e in self.div_log if e["start"] <= idx and (e["end"] is None or lo < e["end"])]
        taint = [t for t in self.taints if t["start"] <= idx and (t["end"] is None or lo < t["end"])]
        if taint:
            # an arc was executed in relative positioning (K3): the filter's samples, decisions and tracked position from
            # there on are unreliable even when the tracked position happens to agree; attributed to K3 unless an earlier
            # unexplained divergence is still active
            t0 = min(t["start"] for t in taint)
            if any(e["mech"] is None and e["start"] < t0 for e in act):
                return None
            earlier = [e for e in act if e["start"] < t0]
            return min(earlier, key=lambda e: e["start"])["mech"] if earlier else taint[0]["mech"]
        if not act:
            return None
        first = min(act, key=lambda e: e["start"])
        same = [e for e in act if e["start"] == first["start"]]
        if any(e["mech"] is None for e in same):
            return None
        return first["mech"]


K2_MODEL_DECIDES = True


class Engine(object):
    def __init__(self, case, driver=None, exact=False, watchdog=2.0):
        self.case = case
        self.settings = case.get("settings") or {}
        self.regions = [tuple(r) for r in case.get("regions", [])]
        self.driver = driver if driver is not None else Core(self.regions, self.settings,
                                                              streaming=bool(case.get("streaming")))
        g90e = bool(self.settings.get("g90e", False))
        self.A = Printer(g90e)
        self.B = Printer(g90e)
        self.K = Printer(g90e, plugin_g92=True)      # follows the file like B, with the filter's own G92 X/Y/Z arithmetic
        self.exact = exact or bool(case.get("exact"))
        self.enabled = True
        self.open = False
        self.active = True           # plugin layer histories toggle this
        self.homed = False
        self.trace = Trace(case)
        self._regsnap = tuple(self.regions)
        self.watchdog = watchdog
        self.at_table = [(c, (None if p is None else re.compile(p)), a)
                         for c, p, a in (self.settings.get("at") if self.settings.get("at") is not None
                                         else [["ExcludeRegion", r"^\s*(enable|on)(\s|$)", "enable_exclusion"],
                                               ["ExcludeRegion", r"^\s*(disable|off)(\s|$)", "disable_exclusion"]])]

    # ------------------------------------------------------------------ oracle helpers
    def inside(self, pts):
        """(any point inside?, borderline?) for native points against the current enabled regions."""
        if not self.enabled or not self.regions:
            return False, False
        if self.exact:
            return any(exact_depth_sign(self.regions, x, y) > 0 for x, y in pts), False
        ins = False
        for x, y in pts:
            d = depth_in(self.regions, x, y)
            if abs(d) < border_eps(x, y):
                return ins, True
            if d >= 0:
                ins = True
        return ins, False

    def at_actions(self, cmd, params):
        acts = []
        for c, pat, action in self.at_table:
            if c == cmd and (pat is None or pat.match(params or "")):
                acts.append(action)
        return acts

    # ------------------------------------------------------------------ steps
    def run(self):
        tr = self.trace
        try:
            for idx, step in enumerate(self.case["steps"]):
                self.step(idx, step)
                if tr.exc is not None:
                    break
        except Truncated as t:
            tr.truncated = t.reason
        tr.final = dict(A=self.A.snapshot(), B=self.B.snapshot(), open=self.open, enabled=self.enabled)
        return tr

    def _shadow(self, rec):
        tr = self.trace
        try:
            hs = self.driver.hooked() if hasattr(self.driver, "hooked") else hooked_state(self.driver.state)
        except AttributeError as exc:
            raise Truncated("hooked-attribute-missing:%s" % exc)
        rec["hs"] = hs
        if hs["excluding"] and not hs["enabled"]:
            tr.diag.append((rec["idx"], "excluding while exclusion disabled"))
        if not hs["excluding"] and hs["pending"]:
            tr.diag.append((rec["idx"], "pending commands while not excluding"))
        if hs["lr"] is not None and hs["lr"][2] and hs["lr"][3]:
            tr.diag.append((rec["idx"], "recoverExcluded and allowCombine"))
        if self.homed and self.active:
            self._divergence(rec, hs)

    def _divergence(self, rec, hs):
        """Per-axis first-cause bookkeeping of tracking divergences (position, frame, mode, unit)."""
        tr = self.trace
        B = self.B
        now = {}
        for k, ax in enumerate("xyz"):
            v = hs[ax]
            if v is None or abs(v - B.pos[k]) > TOL:
                now[ax] = "pos-" + ax
            elif abs(hs["offset"][k] + hs["home"][k] - B.shift[k]) > TOL:
                now[ax] = "frame-" + ax
        if hs["abs_xyz"] != (B.abs_xyz,) * 3:
            now["mode"] = "mode"
        if any(abs(u - B.unit) > 0 for u in hs["unit"]):
            now["unit"] = "unit"
        K = self.K
        for k, ax in enumerate("xyz"):
            v = hs[ax]
            off = v is None or abs(v - K.pos[k]) > TOL or abs(hs["offset"][k] + hs["home"][k] - K.shift[k]) > TOL
            if off:
                tr.kmis_steps += 1
                if ax not in tr.kmis_active:
                    ent = dict(axis=ax, start=rec["idx"], end=None, cmd=rec.get("cmd"))
                    tr.kmis_active[ax] = ent
                    tr.kmis.append(ent)
            elif ax in tr.kmis_active:
                tr.kmis_active.pop(ax)["end"] = rec["idx"]
        code = rec.get("code")
        letters = set(l for l, v in rec.get("words", []) if v is not None)
        mech = None
        if code == "G92" and letters & set("XYZ"):
            mech = "g92_xyz_offset_sign"
        elif TAINT_ARC_UNDER_G91 and code in ("G2", "G3") and rec.get("B_before") and not rec["B_before"]["abs_xyz"]:
            mech = "arc_under_g91"
        elif code in ("G2", "G3") and "R" in letters:
            mech = "r_form_centre"
        homed = set()
        if code == "G28":
            homed = set(l.lower() for l, _ in rec.get("words", []) if l in "XYZ") or set("xyz")
        for key in list(tr.div_active):
            if key not in now:
                tr.div_active[key]["end"] = rec["idx"]
                del tr.div_active[key]
            elif key in homed:
                # homing must re-synchronise this axis: a divergence that survives it is a new first cause
                tr.div_active[key]["end"] = rec["idx"]
                del tr.div_active[key]
        for key, what in now.items():
            if key not in tr.div_active:
                ent = dict(axis=key, start=rec["idx"], end=None, mech=mech, cmd=rec.get("cmd"), what=what)
                tr.div_active[key] = ent
                tr.div_log.append(ent)
                if tr.first_div is None:
                    tr.first_div = (rec["idx"], rec.get("cmd"), what, mech)

    def _residue(self, rec):
        """Physical after-effects.  Outside episodes the real tool and the file's tool coincide; an offset between them that
        stays constant from step to step is one event, dated and explained at the step where it appeared (see mechanism_at)."""
        if self.open:
            return
        tr = self.trace
        for k, ax in enumerate("xyz"):
            d = self.A.pos[k] - self.B.pos[k]
            cur = tr.res_active.get(ax)
            if cur is not None and abs(d - cur["value"]) <= TOL and abs(d) > TOL:
                continue
            if cur is not None:
                cur["end"] = rec["idx"]
                del tr.res_active[ax]
            if abs(d) > TOL:
                ent = dict(axis=ax, start=rec["idx"], end=None, value=d, mech=None)
                ent["mech"] = tr.mechanism_at(rec["idx"], residues=False)   # axes are independent: no chaining
                tr.res_active[ax] = ent
                tr.residues.append(ent)

    def step(self, idx, step):
        kind = step[0]
        rec = dict(idx=idx, kind=kind, open_before=self.open, enabled_before=self.enabled,
                   opened=False, closed=False, closed_by=None, is_move=False, a_moves=[], out=[], sent=[],
                   A_before=self.A.snapshot(), B_before=self.B.snapshot())
        if kind == "g":
            self._gcode(rec, step[1])
        elif kind == "at":
            self._at(rec, step[1], step[2])
        elif kind == "region":
            r = tuple(step[1])
            self.driver.add_region(r)
            self.regions.append(r)
            rec["cmd"] = "addregion %r" % (r,)
        elif kind == "settings":
            # plugin layer: a settings save (the reference @-command table follows the configuration)
            self.driver.write_settings(step[1])
            rec["cmd"] = "settings"
            if step[1].get("at") is not None:
                self.at_table = [(c, (None if p is None else re.compile(p)), a) for c, p, a in step[1]["at"]]
        elif kind == "api_delete":
            # plugin layer: a region deleted through the API (allowed while printing only with the shrink setting on)
            resp = self.driver.api("deleteExcludeRegion", dict(id=step[1]))
            rec["cmd"] = "delete region %r -> %r" % (step[1], resp)
            if resp is None:
                self.regions = [r for r in self.regions if r[-1] != step[1]]
        elif kind == "script":
            self._script(rec, step[1], step[2])
        elif kind == "event":
            self._event(rec, step[1], step[2] if len(step) > 2 else None)
        else:
            raise ValueError("unknown step kind %r" % (kind,))
        rec["A_after"] = self.A.snapshot()
        rec["B_after"] = self.B.snapshot()
        rec["open_after"] = self.open
        rec["enabled_after"] = self.enabled
        self._residue(rec)
        if len(self.regions) != len(self._regsnap) or (self.regions and self.regions[-1] is not self._regsnap[-1]):
            self._regsnap = tuple(self.regions)
        rec["regs"] = self._regsnap
        self._shadow(rec)
        self.trace.steps.append(rec)

    def _exec_A(self, rec, cmds):
        n0 = len(self.A.moves)
        f0 = len(self.A.fw_log)
        for c in cmds:
            self.A.execute(c)
        rec["a_moves"] = rec["a_moves"] + self.A.moves[n0:]
        rec["a_fw"] = rec.get("a_fw", []) + self.A.fw_log[f0:]

    def _close(self, rec, by):
        self.open = False
        rec["closed"] = True
        rec["closed_by"] = by
        if self.trace.episodes:
            rec["ep_open"] = self.trace.episodes[-1]["open"]
        if self.trace.episodes and self.trace.episodes[-1]["close"] is None:
            self.trace.episodes[-1].update(close=rec["idx"], by=by)

    def _gcode(self, rec, cmd):
        code, sub, words = tokenize(cmd)
        rec.update(cmd=cmd, code=code, words=words)
        if self.active and self.homed and (code == "G28" or (code == "G92" and any(l in "XYZ" for l, v in words if v is not None))):
            # every property excludes homing / re-basing while an episode is open; that includes an episode only the filter
            # believes in (e.g. one it opened because of the recorded finding K2): its consequences were judged when it opened
            try:
                if self.driver.state.excluding:
                    raise Truncated("%s-while-filter-excluding" % code.lower())
            except AttributeError:
                pass
        t0 = time.time()
        try:
            raw, out, samples = self.driver.gcode(cmd)
        except Exception as exc:  # noqa: B902 - totality is C09's business; record and stop this case
            self.trace.exc = (rec["idx"], cmd, "%s: %s" % (type(exc).__name__, exc))
            rec["exc"] = self.trace.exc[2]
            out, samples, raw = [], None, "exc"
        if time.time() - t0 > self.watchdog:
            self.trace.slow += 1
        rec["raw"] = "none" if raw is None else ("ignore" if isinstance(raw, tuple) else "list")
        rec["out"] = out
        rec["samples"] = samples
        if not self.active:
            # no filtering outside a print: printers only follow the file
            self._exec_A(rec, out)
            self.B.execute(cmd)
            return
        self._exec_A(rec, out)
        b0 = len(self.B.moves)
        f0 = len(self.B.fw_log)
        Bb = rec["B_before"]
        self.B.execute(cmd)
        try:
            self.K.execute(cmd)
            del self.K.moves[:]
        except Exception:  # noqa: B902
            pass
        rec["b_moves"] = self.B.moves[b0:]
        rec["b_fw"] = self.B.fw_log[f0:]
        if code == "G28":
            self.homed = True
            if self.open:
                raise Truncated("g28-inside-episode")
            if not any(l in "XYZ" for l, _ in words):
                for t in self.trace.taints:
                    if t["end"] is None:
                        t["end"] = rec["idx"]
            return
        if not self.homed:
            return
        if code == "G92" and self.open and any(l in "XYZ" for l, v in words if v is not None):
            raise Truncated("g92xyz-inside-episode")
        vals = dict((l, v) for l, v in words if v is not None)
        pts = None
        if code in ("G0", "G1"):
            if any(l in vals for l in "XYZ"):
                rec["is_move"] = True
                rec["move_kind"] = "lin"
                pts = [tuple(self.B.pos[:2])]
        elif code in ("G2", "G3"):
            moved = bool(rec["b_moves"])
            if samples is not None:
                rec["is_move"] = True
                rec["move_kind"] = "arc"
                if TAINT_ARC_UNDER_G91 and not Bb["abs_xyz"] and not any(t["end"] is None for t in self.trace.taints):
                    self.trace.taints.append(dict(start=rec["idx"], end=None, mech="arc_under_g91"))
                unit, shift = Bb["unit"], Bb["shift"]
                pts = [(samples[k] * unit + shift[0], samples[k + 1] * unit + shift[1])
                       for k in range(0, len(samples) - 1, 2)]
                if not moved:
                    raise Truncated("arc-planned-but-reference-did-not-move")
            elif moved and not self.enabled:
                # exclusion is off: nothing has to be classified, so the filter need not have planned the arc at all - but the
                # move still counts (tracking while disabled is C14's business)
                rec["is_move"] = True
                rec["move_kind"] = "arc"
                pts = [tuple(self.B.pos[:2])]
            elif moved:
                raise Truncated("arc-unobserved")
        if rec["is_move"]:
            ins, borderline = self.inside(pts)
            if borderline:
                raise Truncated("borderline")
            rec["pts"] = pts if len(pts) <= 8 else [pts[0], pts[len(pts) // 2], pts[-1]]
            rec["npts"] = len(pts)
            rec["dest_in"] = ins
            if ins and not self.open:
                self.open = True
                rec["opened"] = True
                self.trace.episodes.append(dict(open=rec["idx"], close=None, by=None))
            elif (not ins) and self.open:
                self._close(rec, "move")

    def _at(self, rec, cmd, params):
        rec.update(cmd="@%s %s" % (cmd, params), atcmd=cmd, atparams=params)
        try:
            handled, sent = self.driver.at(cmd, params)
        except Exception as exc:  # noqa: B902
            self.trace.exc = (rec["idx"], rec["cmd"], "%s: %s" % (type(exc).__name__, exc))
            rec["exc"] = self.trace.exc[2]
            return
        rec["handled"] = handled
        rec["sent"] = sent
        self._exec_A(rec, sent)
        streaming = getattr(self.driver.comm, "streaming", False)
        if not self.active or streaming:
            rec["expect_handled"] = False
            return
        acts = self.at_actions(cmd, params)
        rec["expect_handled"] = bool(acts)
        rec["acts"] = acts
        for a in acts:
            if a == "enable_exclusion":
                self.enabled = True
            elif a == "disable_exclusion":
                self.enabled = False
                rec["disabled_during"] = True
                if self.open:
                    self._close(rec, "at")

    def _script(self, rec, stype, sname):
        rec.update(cmd="script %s/%s" % (stype, sname), stype=stype, sname=sname)
        res = self.driver.script(stype, sname)
        rec["script_result"] = res
        expect = self.active and self.open and stype == "gcode" and sname == "afterPrintDone"
        rec["expect_prefix"] = expect
        if res is not None:
            prefix = res[0]
            cmds = list(prefix) if isinstance(prefix, (list, tuple)) else ([prefix] if prefix else [])
            rec["out"] = cmds
            self._exec_A(rec, cmds)
        if expect:
            self._close(rec, "script")

    def _event(self, rec, name, payload=None):
        rec.update(cmd="event %s" % name, event=name)
        self.driver.event(name, payload)
        if name == "PrintStarted":
            self.active = True
            self.enabled = True
            self.homed = False
            self.K = Printer(self.K.g90e, plugin_g92=True)
            self.trace.kmis_active = {}
            for e in self.trace.kmis:
                if e["end"] is None:
                    e["end"] = rec["idx"]
            if self.open:
                self._close(rec, "newprint")
            self.trace.div_active = {}
            for e in self.trace.div_log + self.trace.taints:
                if e["end"] is None:
                    e["end"] = rec["idx"]
        elif name in END_EVENTS:
            self.active = False
            if self.open:
                self._close(rec, "printend-abandoned")
        elif name == "FileSelected":
            self.regions = []
            self.homed = False
            self.enabled = True
            if self.open:
                self._close(rec, "fileselected")
        if name in END_EVENTS and self.driver.settings.get("clear"):
            self.regions = []
            self.homed = False
            self.enabled = True


def run_case(case, **kw):
    return Engine(case, **kw).run()


def brief(trace, maxsteps=40):
    """Human-readable rendering of a trace for samples / replay files."""
    out = []
    for r in trace.steps[:maxsteps]:
        out.append(dict(i=r["idx"], cmd=r.get("cmd"), out=r.get("out") or r.get("sent"),
                        ep=("open" if r["opened"] else ("close:%s" % r["closed_by"] if r["closed"] else
                                                         ("in" if r["open_after"] else "")))))
    return out
