"""Seeds, shards, watchdogs, verdicts, evidence, known findings (DESIGN.md sections 2.8 - 2.11).

  ./check <ID> [--tier quick|thorough] [--seed N] [--replay FILE] [--workers N] [--cases N] [--secs S]

exit 0  held on what was observed (KNOWN-FINDING lines allowed)
exit 1  VIOLATION property=<id> replay=<path>
exit 2  INCONCLUSIVE property=<id> reason=...
"""
import argparse
import collections
import importlib
import json
import os
import random
import subprocess
import sys
import time
import traceback

ROOT = os.path.dirname(os.path.dirname(os.path.abspath(__file__)))
PY = os.environ.get("VERIF_PYTHON", "/venv/bin/python")

MONITORS = {
    "C01": "vp.monitors.motion:C01", "C02": "vp.monitors.transparency:C02", "C03": "vp.monitors.motion:C03",
    "C04": "vp.monitors.motion:C04", "C05": "vp.monitors.motion:C05", "C06": "vp.monitors.deferred:C06",
    "C07": "vp.monitors.wellformed:C07", "C08": "vp.monitors.reencode:C08", "C09": "vp.monitors.totality:C09",
    "C10": "vp.monitors.plugin_hist:C10", "C11": "vp.monitors.plugin_hist:C11", "C12": "vp.monitors.registry:C12",
    "C13": "vp.monitors.registry:C13", "C14": "vp.monitors.motion:C14", "C15": "vp.monitors.deferred:C15",
    "C16": "vp.monitors.arcs:C16", "C17": "vp.monitors.geometry:C17", "C18": "vp.monitors.parser:C18",
    "C19": "vp.monitors.parser:C19", "C20": "vp.monitors.stream:C20",
}


def load_monitor(pid):
    mod, cls = MONITORS[pid].split(":")
    return getattr(importlib.import_module(mod), cls)()


def load_findings():
    p = os.path.join(ROOT, "known_findings.json")
    with open(p) as f:
        return json.load(f)


def jsonable(o):
    if isinstance(o, (set, frozenset)):
        return sorted(o, key=repr)
    if isinstance(o, tuple):
        return list(o)
    if isinstance(o, float) and (o != o or o in (float("inf"), float("-inf"))):
        return repr(o)
    return repr(o)


# --------------------------------------------------------------------------------------- worker

def worker_main(argv):
    ap = argparse.ArgumentParser()
    ap.add_argument("pid")
    ap.add_argument("--seed", type=int, default=0)
    ap.add_argument("--shard", type=int, default=0)
    ap.add_argument("--nshards", type=int, default=1)
    ap.add_argument("--cases", type=int, default=1000)
    ap.add_argument("--secs", type=float, default=0)
    ap.add_argument("--tier", default="quick")
    ap.add_argument("--out", required=True)
    ap.add_argument("--maxviol", type=int, default=40)
    a = ap.parse_args(argv)
    try:
        # a runaway allocation in the code under observation (e.g. an arc of a billion points after a parsing change) must
        # surface as a MemoryError inside the case, not as the kernel killing the worker
        import resource
        resource.setrlimit(resource.RLIMIT_AS, (8 << 30, 8 << 30))
    except Exception:  # noqa: B902
        pass
    mon = load_monitor(a.pid)
    t0 = time.time()
    stats = collections.Counter()
    sets = collections.defaultdict(set)
    nontrivial = set()
    violations = []
    samples = []
    ncases = 0
    from vp.harness import digest
    mon.shard, mon.nshards = a.shard, a.nshards
    if hasattr(mon, "begin"):
        mon.begin(a.tier)
    k = 0
    while True:
        if a.secs > 0:
            if time.time() - t0 > a.secs:
                break
            if a.cases and k >= a.cases:
                break
        elif k >= a.cases:
            break
        rnd = random.Random("%s/%d/%d/%d" % (a.pid, a.seed, a.shard, k))
        try:
            case = mon.gen_case(rnd, a.tier, k)
        except Exception:
            stats["generator_errors"] += 1
            stats["generator_error:" + traceback.format_exc().strip().splitlines()[-1][:120]] += 1
            k += 1
            continue
        ncases += 1
        tc = time.time()
        try:
            res = mon.check_case(case)
        except Exception:
            res = dict(violations=[dict(kind="monitor-crash", detail=traceback.format_exc()[-1500:], mechanism=None,
                                        monitor_error=True)], nontrivial=False, stats={}, sets={})
        if time.time() - tc > 20:
            stats["slow_case"] += 1
        for kk, v in (res.get("stats") or {}).items():
            stats[kk] += v
        for kk, v in (res.get("sets") or {}).items():
            sets[kk].update(v)
        if res.get("nontrivial_digests"):
            nontrivial.update(res["nontrivial_digests"])
        elif res.get("nontrivial"):
            nontrivial.add(digest(case))
        stats["__evaluations"] += int(res.get("evaluations", 1))
        if res.get("violations"):
            for v in res["violations"][:3]:
                if len(violations) < a.maxviol:
                    violations.append(dict(v, seed=a.seed, shard=a.shard, case_index=k, case=case))
            stats["cases_with_violation"] += 1
        if len(samples) < 3 and res.get("sample") is not None and (res.get("nontrivial") or k > 50):
            samples.append(res["sample"])
        k += 1
    out = dict(ncases=ncases, stats=dict(stats), sets=dict((kk, sorted(v, key=repr)) for kk, v in sets.items()),
               nontrivial=sorted(nontrivial), violations=violations, samples=samples, wall=time.time() - t0)
    if hasattr(mon, "end"):
        out["end"] = mon.end()
    with open(a.out, "w") as f:
        json.dump(out, f, default=jsonable)
    return 0


# --------------------------------------------------------------------------------------- driver

def classify(pid, viol, findings):
    mech = viol.get("mechanism")
    if mech is None:
        return None
    for fd in findings.get("findings", []):
        if fd["mechanism"] == mech and pid in fd.get("properties", [fd.get("property")]):
            return fd
    return None


def write_replay(pid, viol):
    from vp.harness import digest
    d = os.environ.get("VERIF_REPLAY_DIR") or os.path.join(ROOT, "replays")
    os.makedirs(d, exist_ok=True)
    name = "%s-%s.json" % (pid, digest([viol.get("case"), viol.get("kind")]))
    path = os.path.join(d, name)
    with open(path, "w") as f:
        json.dump(viol, f, indent=1, default=jsonable)
    return os.path.relpath(path, ROOT) if path.startswith(ROOT) else path


def main(argv=None):
    argv = list(sys.argv[1:] if argv is None else argv)
    if argv and argv[0] == "--worker":
        return worker_main(argv[1:])
    ap = argparse.ArgumentParser()
    ap.add_argument("pid")
    ap.add_argument("--tier", default=os.environ.get("VERIF_TIER", "quick"))
    ap.add_argument("--seed", type=int, default=int(os.environ.get("VERIF_SEED", "0") or 0))
    ap.add_argument("--replay")
    ap.add_argument("--workers", type=int, default=0)
    ap.add_argument("--cases", type=int, default=0)
    ap.add_argument("--secs", type=float, default=0)
    ap.add_argument("--no-evidence", action="store_true")
    a = ap.parse_args(argv)
    pid = a.pid.upper()
    if a.tier not in ("quick", "thorough"):
        a.tier = "quick"
    os.chdir(ROOT)
    sys.path.insert(0, ROOT)
    for d in ("evidence", "replays", "work"):
        os.makedirs(os.path.join(ROOT, d), exist_ok=True)
    try:
        mon = load_monitor(pid)
    except Exception as exc:  # noqa: B902 - the plugin under observation does not even import
        print("INCONCLUSIVE property=%s reason=the code under observation (or a monitor) failed to import: %s: %s"
              % (pid, type(exc).__name__, str(exc)[:300]))
        return 2
    findings = load_findings()

    if a.replay:
        return replay(pid, mon, a.replay, findings)

    t0 = time.time()
    budget = mon.budget(a.tier)
    workers = a.workers or budget.get("workers", 4 if a.tier == "quick" else 16)
    cases = a.cases or budget.get("cases", 1000)
    secs = a.secs or budget.get("secs", 0)
    env = dict(os.environ)
    env.update(PYTHONPATH=os.environ.get("VERIF_REPO", "/repo") + os.pathsep + ROOT, PYTHONDONTWRITEBYTECODE="1",
               PYTHONHASHSEED="0")
    procs = []
    for sh in range(workers):
        out = os.path.join(ROOT, "work", "%s.%d.%d.%d.json" % (pid, a.seed, sh, os.getpid()))
        cmd = [PY, "-B", os.path.join(ROOT, "vp", "runner.py"), "--worker", pid, "--seed", str(a.seed),
               "--shard", str(sh), "--nshards", str(workers), "--cases", str(cases), "--secs", str(secs), "--tier", a.tier, "--out", out]
        procs.append((sh, out, subprocess.Popen(cmd, env=env, stdout=subprocess.PIPE, stderr=subprocess.STDOUT)))
    timeout = budget.get("timeout", 900 if a.tier == "quick" else 3600)
    results = []
    watchdog = 0
    worker_errors = []
    for sh, out, p in procs:
        try:
            so, _ = p.communicate(timeout=max(5, timeout - (time.time() - t0)))
        except subprocess.TimeoutExpired:
            p.kill()
            p.communicate()
            watchdog += 1
            continue
        if p.returncode != 0 or not os.path.exists(out):
            worker_errors.append((sh, p.returncode, (so or b"").decode("utf-8", "replace")[-2000:]))
            continue
        with open(out) as f:
            results.append(json.load(f))
        os.unlink(out)

    stats = collections.Counter()
    sets = collections.defaultdict(set)
    nontrivial = set()
    violations = []
    samples = []
    ncases = 0
    for r in results:
        ncases += r["ncases"]
        for k, v in r["stats"].items():
            stats[k] += v
        for k, v in r["sets"].items():
            sets[k].update(json.dumps(x) for x in v)
        nontrivial.update(r["nontrivial"])
        violations.extend(r["violations"])
        for s in r["samples"]:
            if len(samples) < 4:
                samples.append(s)

    # deterministic witnesses of the recorded findings (always run, main process, quick)
    known_lines = []
    seen_known = set()
    witness_note = {}
    for fid, case in (mon.witnesses() if hasattr(mon, "witnesses") else []):
        try:
            res = mon.check_case(case)
        except Exception:
            res = dict(violations=[dict(kind="monitor-crash", detail=traceback.format_exc()[-1500:], mechanism=None)])
        hit = False
        for v in res.get("violations", []):
            fd = classify(pid, v, findings)
            if fd is not None and fd["id"] == fid:
                hit = True
            else:
                violations.append(dict(v, seed=a.seed, shard=-1, case_index=-1, case=case, witness_of=fid))
        witness_note[fid] = "reproduced" if hit else "not reproduced (defect no longer present?)"
        if hit:
            seen_known.add(fid)
        stats["witness_cases"] += 1

    # deterministic regression cases (former witnesses of repaired defects): any violation is an ordinary violation
    for name, case in (mon.regressions() if hasattr(mon, "regressions") else []):
        try:
            res = mon.check_case(case)
        except Exception:
            res = dict(violations=[dict(kind="monitor-crash", detail=traceback.format_exc()[-1500:], mechanism=None)])
        stats["regression_cases"] += 1
        for v in res.get("violations", []):
            violations.append(dict(v, seed=a.seed, shard=-1, case_index=-1, case=case, regression_case=name))

    real = []
    for v in violations:
        fd = classify(pid, v, findings)
        if fd is None:
            real.append(v)
        else:
            seen_known.add(fd["id"])
            stats["known_finding_hits:" + fd["id"]] += 1
    for fd in findings.get("findings", []):
        if fd["id"] in seen_known:
            known_lines.append("KNOWN-FINDING: property=%s %s [%s]" % (pid, fd["what"], fd["id"]))

    wall = time.time() - t0
    inconclusive = []
    if not results:
        inconclusive.append("no worker produced a result (%d watchdog, %d errors)" % (watchdog, len(worker_errors)))
    for key, minimum in (mon.thresholds(a.tier) or {}).items():
        got = stats.get(key, 0) if not key.startswith("set:") else len(sets.get(key[4:], ()))
        if got < minimum:
            inconclusive.append("%s=%d below the minimum %d for a verdict" % (key, got, minimum))
    if worker_errors:
        inconclusive.append("worker errors: %r" % (worker_errors[:2],))

    evals = stats.pop("__evaluations", 0) or ncases
    cov = dict(evaluations=evals, cases=ncases, distinct_nontrivial=len(nontrivial), rule=mon.rule, samples=samples,
               events=dict((k, v) for k, v in sorted(stats.items())),
               distinct=dict((k, len(v)) for k, v in sorted(sets.items())),
               workers=workers, watchdog_fired=watchdog, witnesses=witness_note,
               sources=__import__("vp.harness", fromlist=["x"]).source_hashes(),
               inconclusive=inconclusive)
    for k in list(stats):
        if k.startswith("exhaustive_of_"):
            size = int(k.split("_")[-1])
            done = len(sets.get("exhaustive_indices", ()))
            cov["exhaustive_subspace"] = dict(what=getattr(mon, "exhaustive_what", "see rule"), size=size, enumerated=done,
                                              complete=(done == size))
    if "states" in sets:
        cov["states"] = len(sets["states"])
        cov["state_list"] = sorted(sets["states"])[:64]
    if "transitions" in sets:
        cov["transitions"] = len(sets["transitions"])
    ev = dict(property_id=pid, tier=a.tier, seed=a.seed, level="exploration", coverage=cov,
              assumptions=list(getattr(mon, "assumptions", [])), wall_s=round(wall, 2), violations=len(real))
    if not a.no_evidence:
        with open(os.path.join(ROOT, "evidence", pid + ".json"), "w") as f:
            json.dump(ev, f, indent=1, default=jsonable)

    for line in known_lines:
        print(line)
    print("%s tier=%s seed=%d evaluations=%d nontrivial=%d violations=%d known=%d wall=%.1fs" % (
        pid, a.tier, a.seed, evals, len(nontrivial), len(real), len(violations) - len(real), wall))
    if real:
        shown = set()
        for v in real:
            key = (v.get("kind"), v.get("mechanism"))
            if key in shown and len(shown) >= 1:
                continue
            shown.add(key)
            path = write_replay(pid, v)
            print("VIOLATION property=%s replay=%s" % (pid, path))
            print("  kind=%s step=%s cmd=%r detail=%s" % (v.get("kind"), v.get("idx"), v.get("cmd"),
                                                          str(v.get("detail"))[:300]))
            if len(shown) >= 6:
                break
        return 1
    if inconclusive:
        print("INCONCLUSIVE property=%s reason=%s" % (pid, "; ".join(inconclusive)))
        return 2
    return 0


def replay(pid, mon, path, findings):
    with open(path if os.path.isabs(path) else os.path.join(ROOT, path)) as f:
        v = json.load(f)
    case = v["case"]
    res = mon.check_case(case)
    real = [x for x in res.get("violations", []) if classify(pid, x, findings) is None]
    for x in res.get("violations", []):
        print("  %s kind=%s step=%s cmd=%r detail=%s mech=%s" % (
            "violation" if classify(pid, x, findings) is None else "known", x.get("kind"), x.get("idx"),
            x.get("cmd"), str(x.get("detail"))[:400], x.get("mechanism")))
    if real:
        print("VIOLATION property=%s replay=%s" % (pid, path))
        return 1
    print("replay: no violation reproduced")
    return 0


if __name__ == "__main__":
    sys.path.insert(0, ROOT)
    sys.exit(main())
