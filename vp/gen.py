"""Workload generators (DESIGN.md section 2.7): abstract tool paths, then encodings."""
import math
import re

from .harness import depth_in, DEFAULT_EXT, DEFAULT_AT

BED = 60.0
EGRID = 0.0254
PYTHAG = {5: [(3, 4), (4, 3), (5, 0), (0, 5), (-3, 4), (3, -4), (-4, -3), (0, -5), (-5, 0)],
          13: [(5, 12), (12, 5), (13, 0), (0, 13), (-5, 12), (-12, -5)],
          10: [(6, 8), (8, 6), (10, 0), (0, -10), (-6, -8)]}


def fmt(v, nd=3):
    s = ("%." + str(nd) + "f") % v
    if "." in s:
        s = s.rstrip("0").rstrip(".")
    if s in ("-0", ""):
        s = "0"
    return s


def respell(rnd, s, hostile):
    """Value-preserving respelling of a plain decimal literal."""
    if not hostile or rnd.random() < 0.6:
        return s
    neg = s.startswith("-")
    body = s[1:] if neg else s
    k = rnd.random()
    if k < 0.2 and "." in body:
        body = body + "0" * rnd.randint(1, 4)
    elif k < 0.35 and "." not in body:
        body = body + rnd.choice([".", ".0", ".000"])
    elif k < 0.5 and body.startswith("0.") and len(body) > 2:
        body = body[1:]
    elif k < 0.65:
        body = "0" * rnd.randint(1, 3) + body
    sign = "-" if neg else ("+" if rnd.random() < 0.3 else "")
    return sign + body


def map_regions(regs, bed):
    """Map regions generated for the default 0..60 bed onto another bed (lo, hi)."""
    lo, hi = bed
    if (lo, hi) == (0.0, BED):
        return regs
    k = (hi - lo) / BED
    out = []
    for r in regs:
        if r[0] == "rect":
            out.append(["rect", round(lo + r[1] * k, 1), round(lo + r[2] * k, 1), round(lo + r[3] * k, 1), round(lo + r[4] * k, 1), r[5]])
        else:
            out.append(["circ", round(lo + r[1] * k, 1), round(lo + r[2] * k, 1), round(r[3] * k, 1), r[4]])
    return out


def gen_regions(rnd, n=None, grid=False):
    regs = []
    if n is None:
        n = rnd.choice([0, 1, 1, 2, 2, 3, 4, 6])
    for k in range(n):
        rid = "r%d" % k
        t = rnd.random()
        if t < 0.45:
            x1 = round(rnd.uniform(3, 45), 1)
            y1 = round(rnd.uniform(3, 45), 1)
            w = round(rnd.uniform(2, 18), 1)
            h = round(rnd.uniform(2, 18), 1)
            r = ["rect", x1, y1, x1 + w, y1 + h, rid]
            if rnd.random() < 0.3:   # unordered corners
                r = ["rect", r[3], r[2], r[1], r[4], rid] if rnd.random() < 0.5 else ["rect", r[3], r[4], r[1], r[2], rid]
            regs.append(r)
        elif t < 0.82:
            regs.append(["circ", round(rnd.uniform(8, 50), 1), round(rnd.uniform(8, 50), 1),
                         round(rnd.uniform(1.5, 10), 1), rid])
        elif t < 0.85:
            # a negative radius is accepted by the API and denotes an empty region
            regs.append(["circ", round(rnd.uniform(8, 50), 1), round(rnd.uniform(8, 50), 1),
                         -round(rnd.uniform(1.5, 10), 1), rid])
        elif t < 0.9 and regs:
            # nested / overlapping with a previous one
            p = regs[rnd.randrange(len(regs))]
            if p[0] == "rect":
                cx, cy = (p[1] + p[3]) / 2.0, (p[2] + p[4]) / 2.0
            else:
                cx, cy = p[1], p[2]
            regs.append(["circ", round(cx + rnd.uniform(-3, 3), 1), round(cy + rnd.uniform(-3, 3), 1),
                         round(rnd.uniform(1, 6), 1), rid])
        elif t < 0.95:
            # degenerate (zero area)
            if rnd.random() < 0.5:
                x = round(rnd.uniform(5, 50), 1)
                regs.append(["rect", x, round(rnd.uniform(5, 30), 1), x, round(rnd.uniform(30, 50), 1), rid])
            else:
                regs.append(["circ", round(rnd.uniform(5, 50), 1), round(rnd.uniform(5, 50), 1), 0.0, rid])
        else:
            # one covering the origin / start position
            regs.append(["rect", -2.0, -2.0, round(rnd.uniform(2, 8), 1), round(rnd.uniform(2, 8), 1), rid])
    return regs


class ProgGen(object):
    """Generates a concrete program while keeping the file-view state, so that retract cycles are matched."""

    MISC = ["M104 S200", "M106 S255", "M107", "M400", "M140 S60", "T0", "M999", "G4 P10", "M117 hello world",
            "M204 S500", "M204 P800 T1000", "M205 X8 Y8", "M73 P10 R5", "M73 P50", "G29", "M220 S100", "G92"]
    # (a bare "G92" assigns nothing in Marlin >= 1.1)
    # (M82 / M83 are deliberately absent: the filter does not interpret them - no property covers them - while the reference
    # printer does, so they would make the two disagree about the extrusion mode)

    def __init__(self, rnd, regions, feats, settings=None):
        self.r = rnd
        self.regs = [list(r) for r in regions]
        self.f = feats
        self.settings = settings or {}
        self.x = self.y = self.z = 0.0
        self.e = 0.0
        self.unit = 1.0
        self.abs = True
        self.retracted = 0.0
        self.fwret = False
        self.pre = None
        self.enabled = True
        self.steps = []
        self.hostile = bool(feats.get("spell"))
        self.tags = set()
        self.margin = feats.get("margin", 0.05)
        self.nreg = len(self.regs)

    # ------------------------------------------------------------ helpers
    def emit(self, s):
        if self.hostile and self.r.random() < (0.35 if s[:2] in ("G2", "G3") else 0.1):
            # the code spelled with leading zeros, as CNC-style post-processors write it: G01, G00, G092, M0204
            s = re.sub(r"^([GMgm])(\d+)", lambda m: m.group(1) + "0" * self.r.choice([1, 1, 2]) + m.group(2), s)
        if self.hostile and self.r.random() < 0.06 and not s.upper().startswith("M117"):
            s = re.sub(r"^([GgMm]\d+) (?=[A-Za-z])", r"\1", s)        # G1X10 ...: no blank after the code either
        if self.hostile and self.r.random() < 0.15:
            s = s.lower() if self.r.random() < 0.5 else s[0].lower() + s[1:]
        self.steps.append(["g", s])

    def believed_open(self):
        return self.enabled and bool(self.regs) and depth_in(self.regs, self.x, self.y) >= 0

    def pt(self, inside=None):
        r = self.r
        x = y = 0.0
        lo, hi = self.f.get("bed", (0.0, BED))
        for _ in range(300):
            x = round(r.uniform(lo, hi), 2)
            y = round(r.uniform(lo, hi), 2)
            q = r.random()
            if q < 0.06:
                # bed edge: a coordinate of exactly 0 is a legal value, not a missing one
                if r.random() < 0.5:
                    x = 0.0
                else:
                    y = 0.0
            elif q < 0.075:
                x = y = 0.0
            d = depth_in(self.regs, x, y) if self.regs else -1.0
            if abs(d) < self.margin:
                continue
            if inside is None or (d > 0) == inside:
                return x, y
        return x, y

    def nd(self):
        return 3 if self.unit == 1.0 else 5

    def coord(self, axis, target):
        cur = dict(X=self.x, Y=self.y, Z=self.z)[axis]
        v = (target if self.abs else target - cur) / self.unit
        s = fmt(v, self.nd())
        val = float(s) * self.unit
        newt = val if self.abs else cur + val
        return axis + respell(self.r, s, self.hostile), newt

    def _last_e_text(self):
        """The text of the E value the file is at, in the current unit (grid values are exact in both units)."""
        if not self.f.get("egrid", True):
            return fmt(self.e / self.unit, 9)
        k = int(round(self.e / EGRID))
        return fmt(k * EGRID, 4) if self.unit == 1.0 else fmt(k * 0.001, 3)

    def erel(self):
        """Relative extrusion: G91 while the G90-influences-extruder setting is on."""
        return bool(self.settings.get("g90e")) and not self.abs

    def eword(self, target, absolute=False):
        """E word for the file coordinate `target` (mm), snapped to the 0.0254 mm grid: exact decimal in mm and in inches,
        so that retract/recover cycles have equal length whatever the units are.  `absolute`: G92 E words are absolute
        coordinates even in relative extrusion mode."""
        base = self.e if (self.erel() and not absolute) else 0.0
        self._e_unit = self.unit
        self._e_exact = not (self.erel() and not absolute)
        if not self.f.get("egrid", True):
            s = fmt((target - base) / self.unit, 9)
            return "E" + respell(self.r, s, self.hostile), base + float(s) * self.unit
        k = int(round((target - base) / EGRID))
        s = fmt(k * EGRID, 4) if self.unit == 1.0 else fmt(k * 0.001, 3)
        return "E" + respell(self.r, s, self.hostile), base + float(s) * self.unit

    def move(self, x=None, y=None, z=None, de=0.0, g="G1", feed=None, e_same=False):
        open_before, e_before = self.believed_open(), self.e
        self._move(x, y, z, de, g, feed, e_same)
        if not open_before and self.believed_open():
            self.entry_e = e_before          # the file's E when the episode was entered

    def _move(self, x=None, y=None, z=None, de=0.0, g="G1", feed=None, e_same=False):
        self._before_move = (self.x, self.y, self.z, self.e)
        words = []
        if x is not None:
            w, self.x = self.coord("X", x)
            words.append(w)
        if y is not None:
            w, self.y = self.coord("Y", y)
            words.append(w)
        if z is not None:
            w, self.z = self.coord("Z", z)
            words.append(w)
        if de:
            w, self.e = self.eword(self.e + de)
            words.append(w)
        elif e_same and not self.hostile and (self.erel() or (getattr(self, "_e_unit", None) == self.unit
                                                              and getattr(self, "_e_exact", False))):
            # a travel move that repeats the current E value (some slicers write every word on every line): no filament moves.
            # Only while the value the file is at was itself written as an absolute word in the current unit: 0.204 in and
            # 5.1816 mm are not the same float, and neither is a sum of relative offsets and its decimal rendering.
            words.append("E" + (fmt(0, 1) if self.erel() else self._last_e_text()))
        if feed:
            words.append("F" + fmt(feed / self.unit, 2))
        if self.hostile and len(words) > 1 and self.r.random() < 0.3:
            self.r.shuffle(words)
        sep = " " if not self.hostile or self.r.random() < 0.85 else self.r.choice(["", "  "])
        self.emit(g + " " + sep.join(words))
        if not self.abs and self.f.get("repeat", True) and (x is not None or y is not None) and self.r.random() < 0.06:
            # the very same line again: under G91 it moves by the same offsets once more
            x0, y0, z0, e0 = self._before_move
            dx, dy, dz, de_ = self.x - x0, self.y - y0, self.z - z0, self.e - e0
            nx, ny = self.x + dx, self.y + dy
            lo, hi = self.f.get("bed", (0.0, BED))
            clear = (not self.regs) or abs(depth_in(self.regs, nx, ny)) > max(self.margin, 0.05)
            if lo <= nx <= hi and lo <= ny <= hi and clear and (not self.f.get("avoid") or not self.regs or depth_in(self.regs, nx, ny) < 0):
                self.steps.append(["g", self.steps[-1][1]])
                self.x, self.y, self.z = nx, ny, self.z + dz
                if self.erel():
                    self.e += de_
                self.tags.add("repeated-line")

    # ------------------------------------------------------------ retraction cycles
    def retract(self):
        if self.f.get("fw", False):
            p = self.f.get("fwparam", "")
            if self.f.get("fwparam_mix"):
                # every cycle with its own parameter text (swap retraction or not); the G11 of a cycle repeats its G10's
                p = self.r.choice(["", "", "S1", "S0"])
                self._fw_cycle_param = p
            self.emit("G10" + ((("" if self.f.get("fwnospace") else " ") + p) if p else ""))
            self.fwret = True
        else:
            amt = self.f.get("ramt", 3.048)
            self.pre = (self.eword(self.e)[0], self.e, self.erel(), self.unit)
            w, self.e = self.eword(self.e - amt)
            self.retracted = amt
            # some files give the retraction speed once (or never) and leave the F word out afterwards
            self.emit("G1 %s%s" % (w, "" if self.r.random() < self.f.get("p_nofeed", 0.1) else " F2400"))

    def unretract(self):
        if self.fwret and self.f.get("fw_stray") and self.r.random() < 0.15:
            # the file forgets the G11 (legal, if unwise): it goes on as if recovered; a stray G11 may follow much later
            self.fwret = False
            self.stray_g11 = True
            self.tags.add("fw-unmatched")
            return
        if self.fwret:
            p = self.f.get("fwparam", "")
            if self.f.get("fwparam_mix"):
                p = getattr(self, "_fw_cycle_param", "")
            self.emit("G11" + ((("" if self.f.get("fwnospace") else " ") + p) if p else ""))
            self.fwret = False
        else:
            if self.erel() or self.pre[2] or self.pre[3] != self.unit:
                w, self.e = self.eword(self.pre[1])       # relative extrusion (now or then): the word is an offset
            else:
                w, self.e = self.pre[0], self.pre[1]      # the exact word the file had before the retraction
            self.retracted = 0.0
            self.emit("G1 %s%s" % (w, "" if self.r.random() < self.f.get("p_nofeed", 0.1) else " F2400"))

    def is_retracted(self):
        return bool(self.retracted or self.fwret)

    # ------------------------------------------------------------ step kinds
    def step(self, depth=0):
        r = self.r
        f = self.f
        k = r.random()
        pin = f.get("p_inside", 0.45)
        if not self.enabled and f.get("p_inside_disabled") is not None:
            pin = f["p_inside_disabled"]     # while an @-command has exclusion switched off, regions are ordinary bed area
        if f.get("hv") and r.random() < 0.25:
            return self.hostile_value_step()
        if f.get("fw_stray") and not self.fwret and r.random() < (0.12 if getattr(self, "stray_g11", False) else 0.02):
            self.stray_g11 = False
            self.tags.add("fw-unmatched")
            return self.emit("G11")
        if f.get("g92e_entry") and r.random() < 0.12 and self.believed_open() and not self.is_retracted() \
                and getattr(self, "entry_e", None) is not None:
            # coincidence: inside an episode the file re-bases E to exactly the value it had when it entered
            # ... or to that value plus one retraction length, so that the next retraction ends exactly there
            target = self.entry_e + (self.f.get("ramt", 3.048) if r.random() < 0.6 else 0.0)
            w, self.e = self.eword(target, absolute=True)
            self.emit("G92 " + w)
            return
        if f.get("p_arc") and r.random() < f["p_arc"] and f.get("arcs") and (self.abs or f.get("arcs_rel")):
            return self.arc()
        if f.get("p_at") and r.random() < f["p_at"]:
            return self.atcmd()
        if f.get("boost") and r.random() < f["boost"]:
            k = r.choice([0.955, 0.965])     # G28 mid-program / G92 X/Y/Z
        if f.get("boost_add") and r.random() < f["boost_add"]:
            k = 0.91                         # region added / deleted through the API
        if f.get("p_relswitch") and r.random() < f["p_relswitch"]:
            k = 0.67                         # G90 <-> G91
        if f.get("p_retmove") and not self.is_retracted() and r.random() < f["p_retmove"]:
            k = 0.945                        # retraction combined with a move / z-hop
        if k < 0.28:
            if self.is_retracted():
                self.unretract()
            inside = (r.random() < pin) if self.regs else None
            x, y = self.pt(inside)
            d = min(80.0, math.hypot(x - self.x, y - self.y))
            z = None
            if f.get("zmoves", True) and r.random() < 0.12:
                z = round(max(0.1, self.z + r.choice([-0.4, 0.2, 0.2, 0.6, 2.0])), 2)
            if r.random() < 0.15 or (0.0 in (x, y) and r.random() < 0.5):
                only_x = (r.random() < 0.5) if (x == 0.0) == (y == 0.0) else (x == 0.0)
                if 0.0 in (x, y):
                    z = None          # "G1 X0": the only axis word has the value 0
                if only_x:
                    self.move(x=x, z=z, de=round(0.04 * max(d, 1), 4))
                else:
                    self.move(y=y, z=z, de=round(0.04 * max(d, 1), 4))
            else:
                self.move(x=x, y=y, z=z, de=round(0.04 * max(d, 1), 4), feed=r.choice([None, None, 1200, 1800]))
        elif k < 0.42:
            inside = (r.random() < pin) if self.regs else None
            x, y = self.pt(inside)
            z = None
            if r.random() < 0.3 and f.get("zmoves", True):
                z = round(max(0.1, self.z + r.choice([-0.4, 0.2, 0.2, 0.6, 2.0])), 2)
            self.move(x=x, y=y, z=z, g=r.choice(["G0", "G1"]), feed=r.choice([None, 3000, 6000]),
                      e_same=(r.random() < f.get("p_esame", 0.08)))
        elif k < 0.56:
            if self.is_retracted():
                self.unretract()
            else:
                self.retract()
        elif k < 0.61 and f.get("zmoves", True):
            self.move(z=round(max(0.1, self.z + r.choice([0.2, 0.2, -0.2, 1.0, -1.0])), 2),
                      g=r.choice(["G0", "G1"]))
        elif k < 0.65 and f.get("g92e", True):
            if self.retracted and not f.get("g92e_retracted", False):
                return self.step(depth + 1) if depth < 5 else None
            v = r.choice([0.0, 0.0, 5.08, 101.6, 2.54, self.f.get("ramt", 3.048)])     # the last one: next retraction ends at exactly E0
            w, newe = self.eword(v, absolute=True)
            if self.retracted:
                # keep the cycle matched: the recover word is shifted by the same amount
                saved = self.hostile
                self.hostile = False
                tgt = self.pre[1] + (newe - self.e)
                self.pre = (self.eword(tgt)[0], tgt, True, self.unit)     # force re-encoding of the recover word
                self.hostile = saved
            self.e = newe
            self.emit("G92 " + w)
        elif k < 0.70 and f.get("rel", False):
            self.abs = not self.abs
            self.emit("G90" if self.abs else "G91")
        elif k < 0.73 and f.get("inch", False) and not self.retracted:
            self.unit = 25.4 if self.unit == 1.0 else 1.0
            self.emit("G20" if self.unit != 1.0 else "G21")
        elif k < 0.82 or (f.get("extgen") and k < 0.82 + f.get("p_ext", 0.0)):
            if f.get("extgen") and r.random() < 0.8:
                self.steps.append(["g", f["extgen"](r)])
            else:
                pool = list(self.MISC) if f.get("ext", True) else ["M104 S200", "M106 S255", "M400", "T0"]
                self.emit(r.choice(pool))
        elif k < 0.87 and f.get("arcs", False) and (self.abs or f.get("arcs_rel", False)):
            self.arc()
        elif k < 0.90 and f.get("at", False):
            self.atcmd()
        elif k < 0.92 and f.get("addregion", False) and self.nreg < 8:
            if f.get("delregion") and self.regs and r.random() < 0.4:
                # a region is deleted through the API (shrinking allowed), possibly the one the tool is in
                victim = self.regs[r.randrange(len(self.regs))]
                self.regs = [q for q in self.regs if q is not victim]
                self.steps.append(["api_delete", victim[-1]])
                self.tags.add("region-deleted")
            else:
                self.addregion()
        elif k < 0.94:
            self.emit("G1 F%s" % fmt(r.choice([600, 1200, 1800, 3000]) / self.unit, 2))
        elif k < 0.95 and f.get("retmove", False) and not self.is_retracted():
            # Slic3r style: retraction combined with a move (wipe)
            x, y = self.pt((r.random() < pin) if self.regs else None)
            self.pre = (self.eword(self.e)[0], self.e, self.erel(), self.unit)
            self.retracted = 1.016
            if r.random() < 0.3 and f.get("zmoves", True):
                # ... or with the z-hop: "G1 Z0.8 E-1.016" (a move, not an E-only retraction)
                self.move(z=round(self.z + r.choice([0.2, 0.4, 0.6]), 2), de=-1.016)
            else:
                self.move(x=x, y=y, de=-1.016)
        elif k < 0.96 and f.get("g28mid", False) and not self.believed_open() and not self.is_retracted():
            ax = r.choice(["", "", " X", " Y", " X Y", " Z", " W"])      # "G28 W" (Prusa): all axes, without mesh levelling
            self.emit("G28" + ax)
            if ax in ("", " W"):
                self.x = self.y = self.z = 0.0
            else:
                for a in ax.split():
                    setattr(self, a.lower(), 0.0)
        elif k < 0.97 and f.get("g92xyz", False) and not self.believed_open():
            self.tags.add("g92xyz")
            ax = r.choice("XYZ")
            self.emit("G92 %s%s" % (ax, fmt(r.choice([0, 0, 10, -5, 20.5]), 2)))
            # file-view physical position is unchanged; the generator stops tracking the logical frame
            self.f["arcs"] = False
            self.frame_lost = True
        elif depth < 5:
            self.step(depth + 1)

    def hostile_value_step(self):
        """Steps that drive tracked values to very small / very large magnitudes (C07)."""
        r = self.r
        k = r.random()
        if k < 0.25:
            # relative round-off chain: ends (almost) where it started, leaving a residue like 5.55e-17
            was_abs = self.abs
            if was_abs:
                self.abs = False
                self.emit("G91")
            ax = r.choice("XYZ")
            chain = r.choice([["0.1", "0.2", "-0.3"], ["0.7", "0.1", "-0.8"], ["1.1", "2.2", "-3.3"], ["0.3", "-0.1", "-0.2"]])
            if ax in "XY":
                # start the chain from the axis origin so that the residue itself becomes the coordinate
                cur = getattr(self, ax.lower())
                w = fmt(-cur / self.unit, 6)
                setattr(self, ax.lower(), cur + float(w) * self.unit)
                self.emit("G1 %s%s" % (ax, w))
            for w in chain:
                setattr(self, ax.lower(), getattr(self, ax.lower()) + float(w) * self.unit)
                self.emit("G1 %s%s" % (ax, w))
            if was_abs and r.random() < 0.5:
                self.abs = True
                self.emit("G90")
            self.tags.add("roundoff-chain")
        elif k < 0.45:
            self.emit("G1 F%s" % r.choice(["0.001", "0.00001", "1000000000000000000", "123456789012345678", "99999.99999",
                                           "12345678901234567890", "0.000051"]))
            self.tags.add("hostile-feed")
        elif k < 0.6:
            if self.is_retracted():
                self.unretract()
            # tiny extrusion on the E grid is impossible; use an explicit tiny absolute step and resynchronise the file view
            de = r.choice([0.00001, 0.000001, 0.00003])
            s = fmt((self.e + de) / self.unit, 9)
            self.e = float(s) * self.unit
            self.emit("G1 E%s" % s)
            self.f["g92e"] = True
            self.tags.add("tiny-extrusion")
            if self.f.get("egrid", True):
                # bring the file's E back onto the grid so that later cycles stay matched
                w, self.e = self.eword(self.e, absolute=True)
                self.emit("G92 " + w)
            elif r.random() < 0.5 and not self.is_retracted():
                # E coordinate such that the next retraction ends at a tiny value
                s = fmt((self.f.get("ramt", 3.048) + r.choice([0.00001, 0.000003, 0.00002])) / self.unit, 9)
                self.e = float(s) * self.unit
                self.emit("G92 E" + s)
        elif k < 0.75 and not self.f.get("hv_bed_sized"):
            # far away destination (outside every region), then back
            big = r.choice([1e6, 1e9, 1e12, 123456789.123])
            ax = r.choice("XY")
            self.move(**{ax.lower(): big})
            self.tags.add("large-coordinate")
        elif k < 0.9:
            self.emit(r.choice(["M204 S120000000000000000", "M204 P0.00001 T0.000002", "M205 X0.00000001", "M73 P0.00001",
                                "M204 S1234567.125", "M205 X8 Y", "M204 S", "M73 P100 R0"]))
            self.tags.add("hostile-merge")
        else:
            if not self.retracted:
                self.unit = 25.4 if self.unit == 1.0 else 1.0
                self.emit("G20" if self.unit != 1.0 else "G21")

    def arc(self):
        r = self.r
        if self.is_retracted():
            self.unretract()
        if not self.abs:
            self.tags.add("arc_rel")
        if self.abs and self.unit == 1.0 and self.f.get("tiny_arcs", True) and r.random() < 0.05:
            return self.tiny_arc()
        rad = r.choice([2.0, 3.5, 5.0, 9.0, 14.0])
        a0 = r.uniform(0, 2 * math.pi)
        sw = r.uniform(0.3, 5.8)
        cw = r.random() < 0.5
        omit = None
        q = r.random()
        if q < 0.12:
            # full circle: no X/Y words at all
            omit = "XY"
            sw = 2 * math.pi
        elif q < 0.3:
            # half circle about a centre straight above/below or left/right: one coordinate is unchanged and its word omitted
            a0 = r.choice([0.0, math.pi / 2, math.pi, 3 * math.pi / 2])
            sw = math.pi
            omit = "Y" if a0 in (0.0, math.pi) else "X"
        cx, cy = self.x - rad * math.cos(a0), self.y - rad * math.sin(a0)
        a1 = a0 - sw if cw else a0 + sw
        ex, ey = cx + rad * math.cos(a1), cy + rad * math.sin(a1)
        if omit == "XY":
            ex, ey = self.x, self.y
        elif omit == "Y":
            ey = self.y
        elif omit == "X":
            ex = self.x
        if self.f.get("avoid") and self.regs:
            n = int(rad * sw / 0.05) + 2
            for q in range(n + 1):
                a = a0 + (a1 - a0) * q / n
                if depth_in(self.regs, cx + rad * math.cos(a), cy + rad * math.sin(a)) > -(self.margin + 0.3):
                    return
        nd = self.nd()
        wi = fmt((cx - self.x) / self.unit, nd)
        wj = fmt((cy - self.y) / self.unit, nd)
        parts = []
        if not (omit and "X" in omit):
            wx, self.x = self.coord("X", ex)
            parts.append(wx)
        if not (omit and "Y" in omit):
            wy, self.y = self.coord("Y", ey)
            parts.append(wy)
        parts += ["I" + wi, "J" + wj]
        if omit and r.random() < 0.5:
            # a zero offset word may be left out as well
            parts = [w for w in parts if not (w[0] in "IJ" and float(w[1:]) == 0.0)] or parts
        if r.random() < 0.8:
            we, self.e = self.eword(self.e + round(0.04 * rad * sw, 4))
            parts.append(we)
        if r.random() < 0.1 and self.f.get("zmoves", True):
            wz, self.z = self.coord("Z", round(self.z + 0.2, 2))
            parts.append(wz)
        sep = " " if not self.hostile or r.random() < 0.85 else r.choice(["", "  ", "\t"])
        self.emit("%s %s" % ("G2" if cw else "G3", sep.join(parts)))

    def tiny_arc(self):
        """An arc whose end point is 2e-8 .. 5e-7 mm from its start in the direction of rotation: a minute arc, not a full circle
        (absolute millimetres only; ten decimals)."""
        r = self.r
        rad = r.choice([2.0, 5.0, 9.0, 14.0])
        a0 = r.uniform(0, 2 * math.pi)
        cw = r.random() < 0.5
        d = r.choice([2e-8, 1e-7, 5e-7])
        cx, cy = self.x - rad * math.cos(a0), self.y - rad * math.sin(a0)
        a1 = a0 - d / rad if cw else a0 + d / rad
        sx_, sy_ = fmt(cx + rad * math.cos(a1), 10), fmt(cy + rad * math.sin(a1), 10)
        if (float(sx_), float(sy_)) == (self.x, self.y):
            return
        parts = ["X" + sx_, "Y" + sy_, "I" + fmt(cx - self.x, 3), "J" + fmt(cy - self.y, 3)]
        self.x, self.y = float(sx_), float(sy_)
        if r.random() < 0.5:
            we, self.e = self.eword(self.e + EGRID)
            parts.append(we)
        self.tags.add("tiny-arc")
        self.emit("%s %s" % ("G2" if cw else "G3", " ".join(parts)))

    def atcmd(self):
        r = self.r
        table = self.settings.get("at") if self.settings.get("at") is not None else DEFAULT_AT
        k = r.random()
        if k < 0.8 and table:
            entry = table[r.randrange(len(table))]
            cmd = entry[0]
            params = self.f.get("at_params", {}).get(entry[2])
            if params is None:
                params = {"enable_exclusion": ["on", "enable", " on", "enable now"],
                          "disable_exclusion": ["off", "disable", "  off", "disable please"]}[entry[2]]
            p = r.choice(params)
        else:
            cmd = r.choice(["ExcludeRegion", "Other", "excluderegion", "pause"])
            p = r.choice(["", "foo", "offline", "onwards", "enabled", "x off", "OFF", "On", "DISABLE", "Enable"])   # patterns are case-sensitive
            if r.random() < 0.5 and table:
                cmd = table[r.randrange(len(table))][0]
        self.steps.append(["at", cmd, p])
        # belief only (steers G28 placement); the oracle does its own matching
        import re
        for c, pat, act in table:
            if c == cmd and (pat is None or re.match(pat, p)):
                self.enabled = (act == "enable_exclusion")

    def addregion(self):
        r = self.r
        rid = "a%d" % self.nreg
        self.nreg += 1
        if r.random() < 0.35:
            # on top of the current tool position
            if r.random() < 0.5:
                reg = ["circ", round(self.x + r.uniform(-1, 1), 1), round(self.y + r.uniform(-1, 1), 1),
                       round(r.uniform(2, 6), 1), rid]
            else:
                reg = ["rect", round(self.x - r.uniform(1, 5), 1), round(self.y - r.uniform(1, 5), 1),
                       round(self.x + r.uniform(1, 5), 1), round(self.y + r.uniform(1, 5), 1), rid]
        else:
            reg = gen_regions(r, 1)[0]
            reg[-1] = rid
        # keep the current position off the new border
        d = depth_in([reg], self.x, self.y)
        if abs(d) < self.margin:
            return
        self.regs.append(reg)
        self.steps.append(["region", reg])
        self.tags.add("addregion")


def gen_program(rnd, feats, settings=None, nsteps=None, regions=None):
    if regions is None and "bed" not in feats and feats.get("beds", False):
        feats = dict(feats, bed=rnd.choice([(0.0, BED)] * 6 + [(-40.0, 40.0)] * 2 + [(0.0, 250.0), (-150.0, 150.0)]))
    regs = map_regions(gen_regions(rnd), feats.get("bed", (0.0, BED))) if regions is None else regions
    if regions is None and feats.get("sentinels") and rnd.random() < 0.25:
        # slabs far outside the bed: the tool never goes there, a wildly wrong tracked position does
        lo, hi = feats.get("bed", (0.0, BED))
        a, b = lo - 100.0, hi + 100.0
        regs = regs + [["rect", -9000.0, -9000.0, a, 9000.0, "far-left"], ["rect", b, -9000.0, 9000.0, 9000.0, "far-right"],
                       ["rect", -9000.0, -9000.0, 9000.0, a, "far-below"], ["rect", -9000.0, b, 9000.0, 9000.0, "far-above"]]
    g = ProgGen(rnd, regs, dict(feats), settings)
    g.emit("G28")
    if rnd.random() < 0.85:
        x, y = g.pt(False if rnd.random() < 0.85 else None)
        g.move(x=x, y=y, z=0.2, feed=1200)
    if feats.get("start_inch") and rnd.random() < feats["start_inch"]:
        g.unit = 25.4
        g.emit("G20")
    if feats.get("start_rel") and rnd.random() < feats["start_rel"]:
        g.abs = False
        g.emit("G91")
    n = nsteps if nsteps is not None else rnd.randint(5, 45)
    for _ in range(n):
        g.step()
    if feats.get("end_matched", False) and g.is_retracted():
        g.unretract()
    return regs, g


# ------------------------------------------------------------------ exact-border class

def gen_exact_case(rnd):
    """Integer millimetres, absolute mode, no offsets: every quantity is exactly representable."""
    regs = []
    for k in range(rnd.choice([1, 1, 2, 3])):
        if rnd.random() < 0.5:
            x1, y1 = rnd.randint(5, 30), rnd.randint(5, 30)
            regs.append(["rect", x1, y1, x1 + rnd.randint(0, 15), y1 + rnd.randint(0, 15), "r%d" % k])
        else:
            regs.append(["circ", rnd.randint(15, 45), rnd.randint(15, 45), rnd.choice([5, 13, 10, 0]), "r%d" % k])
    steps = [["g", "G28"]]
    e = 0

    def candidates():
        pts = []
        for r in regs:
            if r[0] == "rect":
                xs = [r[1] - 1, r[1], (r[1] + r[3]) // 2, r[3], r[3] + 1]
                ys = [r[2] - 1, r[2], (r[2] + r[4]) // 2, r[4], r[4] + 1]
                pts += [(x, y) for x in xs for y in ys]
            else:
                for dx, dy in PYTHAG.get(r[3], [(0, 0)]):
                    pts.append((r[1] + dx, r[2] + dy))
                    pts.append((r[1] + dx + (1 if dx >= 0 else -1), r[2] + dy + (1 if dy >= 0 else -1)))
                pts.append((r[1], r[2]))
        pts += [(rnd.randint(0, 60), rnd.randint(0, 60)) for _ in range(6)]
        return pts
    pts = candidates()
    for _ in range(rnd.randint(6, 30)):
        x, y = pts[rnd.randrange(len(pts))]
        k = rnd.random()
        if k < 0.6:
            e += 1
            steps.append(["g", "G1 X%d Y%d E%d" % (x, y, e)])
        elif k < 0.8:
            steps.append(["g", "G0 X%d Y%d" % (x, y)])
        elif k < 0.9:
            steps.append(["g", "G1 X%d" % x])
        else:
            steps.append(["g", "G1 Z%d" % rnd.randint(0, 5)])
    return dict(cls="exact-border", exact=True, settings={}, regions=regs, steps=steps)


# ------------------------------------------------------------------ wild dialect (C02 classes 1-2, C09, C20)

def num(rnd, hostile=False, lo=-60.0, hi=60.0):
    k = rnd.random()
    if k < 0.5:
        s = fmt(rnd.uniform(lo, hi), rnd.choice([0, 1, 2, 3, 4, 5]))
    elif k < 0.7:
        s = str(rnd.randint(int(lo), int(hi)))
    elif k < 0.8:
        s = fmt(rnd.uniform(-1, 1), 5)
    elif k < 0.9:
        s = rnd.choice(["0", "-0", "0.0", "1", "10", "100", "0.5", "-0.5"])
    else:
        s = fmt(rnd.uniform(lo, hi) * rnd.choice([1e-6, 1e-3, 10, 100]), 6)
    return respell(rnd, s, hostile)


def wild_command(rnd, hostile=False, ext=()):
    """One command of the supported dialect with arbitrary (not path-consistent) parameters."""
    k = rnd.random()
    n = lambda **kw: num(rnd, hostile, **kw)   # noqa: E731
    if k < 0.35:
        words = []
        for l in "XYZEF":
            if rnd.random() < (0.55 if l in "XY" else 0.3):
                words.append(l + (n(lo=0, hi=5000) if l == "F" else n(lo=(0 if l == "Z" else -60))))
        return rnd.choice(["G0", "G1", "G1", "G01", "G00"]) + "".join(" " + w for w in words)
    if k < 0.47:
        words = []
        for l in "XY":
            if rnd.random() < 0.8:
                words.append(l + n())
        if rnd.random() < 0.6:
            for l in "IJ":
                if rnd.random() < 0.85:
                    words.append(l + n(lo=-30, hi=30))
        else:
            words.append("R" + n(lo=-80, hi=80))
        if rnd.random() < 0.5:
            words.append("E" + n(lo=0, hi=50))
        if rnd.random() < 0.15:
            words.append("Z" + n(lo=0, hi=10))
        if rnd.random() < 0.2:
            words.append("F" + n(lo=1, hi=5000))
        return rnd.choice(["G2", "G3"]) + "".join(" " + w for w in words)
    if k < 0.55:
        return rnd.choice(["G10", "G11", "G10 S1", "G11 S1", "G10 P1 S200", "G10 L2 P1 X0", "G10 S0", "G11 S0"])
    if k < 0.62:
        return "G1 E" + n(lo=-5, hi=60) + rnd.choice(["", " F2400", " F1800"])
    if k < 0.68:
        return rnd.choice(["G90", "G91", "G20", "G21", "G90", "G21"])
    if k < 0.75:
        words = [l + n() for l in "XYZE" if rnd.random() < 0.35]
        return "G92" + "".join(" " + w for w in words)
    if k < 0.79:
        words = [l + n(lo=-5, hi=5) for l in "XYZ" if rnd.random() < 0.5]
        return "M206" + "".join(" " + w for w in words)
    if k < 0.82:
        return "G28" + rnd.choice(["", "", " X", " Y", " Z", " X Y", " X0 Y0", " O"])
    pool = ["M104 S200", "M106 S255", "M107", "M400", "M140 S60", "T0", "T1", "M999", "G4 P10", "G4 S1",
            "M117 hello world", "M117 Layer 3/40 E1 X2", "M204 S500", "M204 P800 T1000", "M205 X8 Y8", "M73 P10 R5",
            "M73 P50", "G29", "M82", "M83", "M220 S100", "M900 K0.2", "M900 K", "G80", "G5 X1 Y1 I0 J0 P1 Q1", "M84",
            "M105", "M114", "G38.2 Z-5", "M600"]
    pool += list(ext)
    return rnd.choice(pool)


def gen_wild(rnd, n, hostile=False, ext=()):
    steps = [["g", "G28"]]
    if rnd.random() < 0.7:
        steps.append(["g", "G1 X%s Y%s Z0.2 F1200" % (fmt(rnd.uniform(0, 60), 2), fmt(rnd.uniform(0, 60), 2))])
    for _ in range(n):
        steps.append(["g", wild_command(rnd, hostile, ext)])
    return steps


# ------------------------------------------------------------------ exhaustive retraction-automaton class (C01, C04, C05)

# letters: R retract, U recover, Pi/Po printing move to a point inside/outside the region, Ti/To travel inside/outside
_LET = {0: ["R", "Pi", "Po", "Ti", "To"], 1: ["U", "Ti", "To"]}
_AT = ["Off", "On"]        # with_at: a disable / enable @-command may stand anywhere
_NEXT = {"R": 1, "U": 0}
_COUNT = {}


def _letters(state, with_at):
    return _LET[state] + (_AT if with_at else [])


def _count(length, state, with_at=False):
    if length == 0:
        return 1
    key = (length, state, with_at)
    if key not in _COUNT:
        _COUNT[key] = sum(_count(length - 1, _NEXT.get(l, state), with_at) for l in _letters(state, with_at))
    return _COUNT[key]


def exhaustive_total(maxlen, with_at=False):
    return sum(_count(L, 0, with_at) for L in range(1, maxlen + 1))


def exhaustive_sequence(index, maxlen, with_at=False):
    """The index-th valid event sequence (matched cycles by construction) of length 1..maxlen, or None when exhausted."""
    for L in range(1, maxlen + 1):
        n = _count(L, 0, with_at)
        if index < n:
            seq, state = [], 0
            for pos in range(L):
                for l in _letters(state, with_at):
                    c = _count(L - pos - 1, _NEXT.get(l, state), with_at)
                    if index < c:
                        seq.append(l)
                        state = _NEXT.get(l, state)
                        break
                    index -= c
            return seq
        index -= n
    return None


def exhaustive_case(index, maxlen, firmware, variant=0, with_at=False):
    """Concrete program for the index-th event sequence around one rectangular region."""
    seq = exhaustive_sequence(index, maxlen, with_at)
    if seq is None:
        return None
    inside = [(25.0, 25.0), (24.0, 27.0), (27.5, 22.5)]
    outside = [(10.0, 10.0), (40.0, 12.0), (12.0, 41.0)]
    steps = [["g", "G28"], ["g", "G1 X5 Y5 Z0.2 F1200"]]
    e = 0.0
    ni = no = 0
    pre = None
    for l in seq:
        if l in ("Off", "On"):
            steps.append(["at", "ExcludeRegion", l.lower()])
        elif l == "R":
            if firmware:
                steps.append(["g", "G10"])
            else:
                pre = e
                e = round(e - 3.048, 4)
                steps.append(["g", "G1 E%s F2400" % fmt(e, 4)])
        elif l == "U":
            if firmware:
                steps.append(["g", "G11"])
            else:
                e = pre
                steps.append(["g", "G1 E%s F2400" % fmt(e, 4)])
        else:
            if l[1] == "i":
                x, y = inside[ni % len(inside)]
                ni += 1
            else:
                x, y = outside[no % len(outside)]
                no += 1
            if l[0] == "P":
                e = round(e + 0.508, 4)
                steps.append(["g", "G1 X%s Y%s E%s" % (fmt(x, 2), fmt(y, 2), fmt(e, 4))])
            else:
                z = " Z0.6" if (variant and (ni + no) % 3 == 0) else ""
                steps.append(["g", "G0 X%s Y%s%s" % (fmt(x, 2), fmt(y, 2), z)])
    case = dict(cls="exhaustive-automaton", settings={}, regions=[["rect", 20.0, 20.0, 30.0, 30.0, "r0"]], steps=steps,
                seq="".join(seq), exhaustive_index=index)
    if firmware:
        case["fw"] = True
        case["fwparam"] = ""
    return case
