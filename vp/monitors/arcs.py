"""C16: contracts on the real planArc / computeArcCenterOffsets, plus the end-to-end consequence."""
import collections
import math
import random

from .base import Monitor
from ..harness import Core, Wrapped, depth_in, digest
from ..gen import fmt

TWO_PI = 2 * math.pi


def plain(v, nd=6):
    return fmt(v, nd)


class ArcContract(object):
    """pre/post contract around planArc of one GcodeHandlers instance (records, never raises)."""

    def __init__(self, handlers):
        self.h = handlers
        self.calls = 0
        self.skipped = 0
        self.failures = []
        self.last = None
        orig = handlers.planArc
        me = self

        def wrapper(endX, endY, i, j, clockwise):
            pos = handlers.state.position
            # the logical start point from the raw fields of the axes (not through the conversion helpers under observation)
            ax, ay = pos.X_AXIS, pos.Y_AXIS
            x = (ax.current - ax.offset - ax.homeOffset) / ax.unitMultiplier
            y = (ay.current - ay.offset - ay.homeOffset) / ay.unitMultiplier
            res = orig(endX, endY, i, j, clockwise)
            me.calls += 1
            me.last_args = (endX, endY, i, j, bool(clockwise))
            try:
                me.check(x, y, endX, endY, i, j, clockwise, res)
            except Exception as exc:  # noqa: B902
                me.failures.append("contract evaluation error %r" % (exc,))
            return res
        handlers.planArc = wrapper

    def check(self, x, y, endX, endY, i, j, clockwise, res):
        f = self.failures
        self.last = None
        if not isinstance(res, list) or len(res) < 2 or len(res) % 2:
            f.append("result is not a non-empty list of x,y pairs: %r" % (res,))
            return
        n = len(res) // 2
        if res[-2] != endX or res[-1] != endY:
            f.append("last point (%r, %r) is not the commanded end point (%r, %r)" % (res[-2], res[-1], endX, endY))
        cx, cy = x + i, y + j
        r = math.hypot(i, j)
        a0 = math.atan2(y - cy, x - cx)
        a1 = math.atan2(endY - cy, endX - cx)
        ccw = (a1 - a0) % TWO_PI
        if x == endX and y == endY:
            sweep = TWO_PI
        elif ccw < 1e-9 or ccw > TWO_PI - 1e-9:
            self.skipped += 1        # zero-angle arcs: Marlin-compatible asymmetry, outside the property's sweep domain
            return
        else:
            sweep = ccw if not clockwise else TWO_PI - ccw
        length = sweep * r
        self.last = dict(n=n, length=length, r=r, sweep=sweep)
        if length / n > 1 + 1e-9:
            f.append("%d points for an arc of length %.9f: spacing %.9f > 1 unit" % (n, length, length / n))
        sign = -1.0 if clockwise else 1.0
        tol = 1e-7 * max(1.0, r)
        step = max(1, n // 200)       # check every point of short arcs, an even subsample of long ones, always the last
        ks = list(range(1, n, step)) + ([n - 1] if n > 1 else [])
        for k in ks:
            a = a0 + sign * sweep * k / n
            ex, ey = cx + r * math.cos(a), cy + r * math.sin(a)
            px, py = res[2 * (k - 1)], res[2 * (k - 1) + 1]
            if abs(px - ex) > tol or abs(py - ey) > tol:
                f.append("point %d of %d is (%.9f, %.9f), expected (%.9f, %.9f) on the circle at equal-angle step (dir %s)"
                         % (k, n, px, py, ex, ey, "cw" if clockwise else "ccw"))
                break


def check_centre(x, y, endX, endY, radius, clockwise, res):
    """Contract of computeArcCenterOffsets; returns (failures, mechanism)."""
    i, j = res
    chord = math.hypot(endX - x, endY - y)
    must_zero = (radius == 0) or (x == endX and y == endY) or (abs(radius) < chord / 2 * (1 - 1e-12))
    if must_zero:
        if i != 0 or j != 0:
            return ["a centre offset (%r, %r) is returned although R=%r is 0, too small, or start == end" % (i, j, radius)], None
        return [], None
    if i == 0 and j == 0:
        if abs(radius) <= chord / 2 * (1 + 1e-12):
            return [], None      # borderline R == chord/2 may go either way
        return ["no centre returned for R=%r, chord %r" % (radius, chord)], None
    cx, cy = x + i, y + j
    d1 = math.hypot(cx - x, cy - y)
    d2 = math.hypot(cx - endX, cy - endY)
    R = abs(radius)
    tol = 1e-9 * max(R, chord, 1.0)
    if abs(d1 - R) > tol or abs(d2 - R) > tol:
        oblique = (endX != x) and (endY != y)
        mech = None
        if oblique:
            # the recorded finding K1 is this exact arithmetic (the y component of the bisector direction has the wrong sign);
            # a wrong centre that is not the one K1 produces is something else
            e = -1 if (bool(clockwise) ^ (radius < 0)) else 1
            dx, dy = endX - x, endY - y
            h = math.sqrt(max(0.0, radius * radius - (chord / 2) * (chord / 2)))
            ki = (x + endX) / 2 + e * h * (-dy / chord) - x
            kj = (y + endY) / 2 + e * h * (-dx / chord) - y
            if abs(i - ki) <= tol and abs(j - kj) <= tol:
                mech = "r_form_oblique_chord_centre"
        return (["centre (%.9f, %.9f) is at distance %.9f from the start and %.9f from the end, expected |R| = %.9f"
                 % (cx, cy, d1, d2, R)], mech)
    return [], None


class C16(Monitor):
    prop = "C16"
    quick_cases = 200
    rule = ("real planArc driven directly: start in [-300,300]^2, radius log-uniform in [0.2,500], sweep in [1e-3, 2pi-1e-3] or "
            "exactly 2pi (end == start), both directions, mm and inch logical units; real computeArcCenterOffsets with R of both "
            "signs incl. R==0, start==end, |R| < chord/2; end-to-end: I/J arc from outside whose path is >= 0.6 units deep in a "
            "region must be suppressed as a whole; one case = a batch of 40 arcs; non-trivial = arc of more than 3 points, or a "
            "returned centre, or a suppressed crossing arc; distinct by digest of the arc parameters")
    assumptions = ["the contract does not pin the number of points, only spacing <= 1 unit and equal angles",
                   "zero-angle arcs (end on the ray centre->start, end != start) are outside the property's sweep domain"]
    BATCH = 40


    def begin(self, tier):
        self.cores = {}

    def core(self, inch):
        if not hasattr(self, "cores"):
            self.cores = {}
        if inch not in self.cores:
            c = Core([], {})
            c.contract = ArcContract(c.handlers)
            c.gcode("G28")
            if inch:
                c.gcode("G20")
            self.cores[inch] = c
        return self.cores[inch]

    def twin_core(self, inch):
        if not hasattr(self, "twins"):
            self.twins = {}
        if inch not in self.twins:
            c = Core([], {})
            c.gcode("G28")
            if inch:
                c.gcode("G20")
            self.twins[inch] = c
        return self.twins[inch]

    def gen_case(self, rnd, tier, k):
        items = []
        for _ in range(self.BATCH):
            t = rnd.random()
            inch = rnd.random() < 0.25
            sx, sy = round(rnd.uniform(-300, 300), rnd.choice([0, 1, 3, 6])), round(rnd.uniform(-300, 300), rnd.choice([0, 1, 3, 6]))
            if inch:
                sx, sy = round(sx / 25.4, 5), round(sy / 25.4, 5)
            if t < 0.55:
                r = math.exp(rnd.uniform(math.log(0.2), math.log(500)))
                a0 = rnd.uniform(0, TWO_PI)
                kind = rnd.random()
                if kind < 0.08:
                    sweep = None      # full circle
                elif kind < 0.2:
                    sweep = rnd.choice([1e-3, TWO_PI - 1e-3, math.pi, math.pi / 2, rnd.uniform(1e-3, 0.05)])
                elif kind < 0.25:
                    # end point within 1e-9 .. 1e-6 (relative) of the start point, but not equal: a minute arc, not a full circle
                    sweep = rnd.choice([3e-9, 1e-8, 1e-7, 1e-6, 1e-5])
                else:
                    sweep = rnd.uniform(1e-3, TWO_PI - 1e-3)
                items.append(dict(t="plan", inch=inch, sx=sx, sy=sy, r=r, a0=a0, sweep=sweep, cw=rnd.random() < 0.5,
                                  text=rnd.random() < 0.3))
                if rnd.random() < 0.15 and sweep is not None:
                    # the very same arguments again from a (slightly) different start point: a different circle
                    items.append(dict(t="repeat", dx=rnd.choice([0.5, -1.0, 2.0, 0.0]), dy=rnd.choice([0.25, 1.0, -2.0])))
            elif t < 0.57:
                # the arc is the first move after homing (native X / Y exactly 0) while a home offset or a G92 offset is in force
                items.append(dict(t="fromhome", inch=inch, off=rnd.choice(["M206 X5 Y-3", "G92 X10 Y20", "M206 X-2.5", "G92 Y7", "G92 X0 Y0"]),
                                  r=rnd.uniform(2, 40), a0=rnd.uniform(0, TWO_PI), sweep=rnd.uniform(0.3, 5.5), cw=rnd.random() < 0.5))
            elif t < 0.6:
                # two arcs through the real handler with nothing but a unit switch (or nothing at all) in between
                items.append(dict(t="chain", sx=round(rnd.uniform(-100, 100), 2), sy=round(rnd.uniform(-100, 100), 2),
                                  inch0=rnd.random() < 0.5, switch=rnd.random() < 0.7,
                                  arcs=[dict(r=rnd.uniform(2, 40), a0=rnd.uniform(0, TWO_PI), sweep=rnd.uniform(0.3, 5.5),
                                             cw=rnd.random() < 0.5) for _ in range(2)]))
            elif t < 0.85:
                kind = rnd.random()
                ex, ey = sx + round(rnd.uniform(-40, 40), 3), sy + round(rnd.uniform(-40, 40), 3)
                if kind < 0.3:
                    if rnd.random() < 0.5:
                        ex = sx       # vertical chord
                    else:
                        ey = sy       # horizontal chord
                chord = math.hypot(ex - sx, ey - sy)
                q = rnd.random()
                if q < 0.1:
                    R = 0.0
                elif q < 0.2:
                    R = chord / 2 * rnd.uniform(0.1, 0.99)
                elif q < 0.25:
                    ex, ey, R = sx, sy, rnd.uniform(1, 10)
                else:
                    R = chord / 2 * math.exp(rnd.uniform(math.log(1.001), math.log(50)))
                if rnd.random() < 0.5:
                    R = -R
                items.append(dict(t="centre", inch=inch, sx=sx, sy=sy, ex=ex, ey=ey, R=R, cw=rnd.random() < 0.5))
            else:
                items.append(self.gen_cross(rnd))
        return dict(items=items)

    @staticmethod
    def gen_cross(rnd):
        """An arc that starts and ends outside a region but whose path goes >= 0.6 units deep (checked by dense sampling)."""
        for _ in range(50):
            inch = rnd.random() < 0.2
            unit = 25.4 if inch else 1.0
            if rnd.random() < 0.5:
                reg = ["rect", 100.0, 100.0, 100.0 + rnd.uniform(3, 40) * unit, 100.0 + rnd.uniform(3, 40) * unit, "r0"]
            else:
                reg = ["circ", 120.0, 120.0, rnd.uniform(2, 25) * unit, "r0"]
            r = rnd.uniform(2, 60) * unit
            a0 = rnd.uniform(0, TWO_PI)
            sweep = rnd.uniform(0.2, 6.0)
            cw = rnd.random() < 0.5
            cx, cy = rnd.uniform(60, 180), rnd.uniform(60, 180)
            s = (cx + r * math.cos(a0), cy + r * math.sin(a0))
            a1 = a0 - sweep if cw else a0 + sweep
            e = (cx + r * math.cos(a1), cy + r * math.sin(a1))
            if depth_in([reg], s[0], s[1]) > -0.5 * unit or depth_in([reg], e[0], e[1]) > -0.5 * unit:
                continue
            n = int(r * sweep / (0.1 * unit)) + 2
            deep = max(depth_in([reg], cx + r * math.cos(a0 + (a1 - a0) * q / n), cy + r * math.sin(a0 + (a1 - a0) * q / n))
                       for q in range(n + 1))
            if deep < 0.6 * unit + 1e-3:
                continue
            return dict(t="cross", inch=inch, reg=reg, sx=s[0] / unit, sy=s[1] / unit, ex=e[0] / unit, ey=e[1] / unit,
                        i=(cx - s[0]) / unit, j=(cy - s[1]) / unit, cw=cw, deep=deep)
        return dict(t="skip")

    def check_case(self, case):
        stats = collections.Counter()
        v = []
        nt = []
        sample = None
        for it in case["items"]:
            if it["t"] == "plan":
                self.check_plan(it, stats, v, nt)
            elif it["t"] == "repeat":
                self.check_repeat(it, stats, v)
            elif it["t"] == "chain":
                self.check_chain(it, stats, v)
            elif it["t"] == "fromhome":
                self.check_fromhome(it, stats, v)
            elif it["t"] == "centre":
                self.check_centre_item(it, stats, v, nt)
            elif it["t"] == "cross":
                self.check_cross(it, stats, v, nt)
            if sample is None and it["t"] != "skip":
                sample = it
        return dict(violations=v, nontrivial_digests=nt, stats=stats, sets={}, evaluations=len(case["items"]),
                    sample=sample)

    def place(self, core, sx, sy):
        core.gcode("G0 X%s Y%s" % (plain(sx), plain(sy)))
        pos = core.state.position
        return pos.X_AXIS.nativeToLogical(), pos.Y_AXIS.nativeToLogical()

    def check_plan(self, it, stats, v, nt):
        core = self.core(it["inch"])
        con = core.contract
        # home offsets (M206), different for X and Y now and then: whatever they mean to the firmware, an arc must leave the tracked
        # position where a straight move to the same end point leaves it (a second core does that move)
        m206 = None
        if it.get("text"):
            hx, hy = [(0, 0), (0, 0), (5, -3), (-2.5, 7), (10, 10), (0, 4)][int(digest(it)[:4], 16) % 6]
            m206 = "M206 X%s Y%s" % (plain(hx), plain(hy))
            core.gcode(m206)
        x, y = self.place(core, it["sx"], it["sy"])
        r, a0 = it["r"], it["a0"]
        cx, cy = x - r * math.cos(a0), y - r * math.sin(a0)
        i, j = cx - x, cy - y
        if it["sweep"] is None:
            ex, ey = x, y
        else:
            a1 = a0 - it["sweep"] if it["cw"] else a0 + it["sweep"]
            ex, ey = cx + r * math.cos(a1), cy + r * math.sin(a1)
        nf = len(con.failures)
        nc = con.calls
        if it["text"]:
            # through the real handler, with plain-decimal text (end point then lies on the circle only to 1e-6)
            words = ["X" + plain(ex, 7), "Y" + plain(ey, 7), "I" + plain(i, 7), "J" + plain(j, 7)]
            want = tuple(float(w[1:]) for w in words) + (bool(it["cw"]),)
            # any legal spelling of the same words (seeded from the item, so a replay reproduces it)
            srnd = random.Random(digest(it))
            sp = []
            for w in words:
                t = w[1:]
                q = srnd.random()
                if q < 0.15 and t.lstrip("-").startswith("0.") and len(t.lstrip("-")) > 2:
                    t = t.replace("0.", ".", 1)               # -.75 / .5
                elif q < 0.25 and not t.startswith("-"):
                    t = "+" + t
                elif q < 0.3 and "." not in t:
                    t = t + "."
                elif q < 0.35:
                    t = ("-00" + t[1:]) if t.startswith("-") else ("00" + t)
                sp.append((w[0].lower() if srnd.random() < 0.15 else w[0]) + t)
            srnd.shuffle(sp)
            if srnd.random() < 0.25:
                # words the arc handler has no use for (circle count, laser power, feed, extrusion) anywhere among the others
                for extra in srnd.sample(["P1", "S255", "F1500", "E0.5", "T0", "P2"], srnd.randint(1, 2)):
                    sp.insert(srnd.randint(0, len(sp)), extra)
            sep = srnd.choice([" ", " ", " ", "", "\t", "  "])
            code = "G2" if it["cw"] else "G3"
            cmd = srnd.choice([code, code, code, "G0" + code[1], code.lower()]) + (sep if sep or srnd.random() < 0.5 else " ") + sep.join(sp)
            try:
                core.gcode(cmd)
            except Exception as exc:  # noqa: B902
                v.append(dict(kind="exception", idx=-1, cmd=cmd, detail=repr(exc), mechanism=None))
                return
            stats["planarc_via_handler"] += 1
            if con.calls == nc:
                if math.hypot(want[0] - x, want[1] - y) > 1e-3:
                    v.append(dict(kind="arc-not-planned", idx=-1, cmd=cmd, detail="the handler did not plan the arc %r from (%r, %r) at all"
                                  % (cmd, x, y), mechanism=None))
                return
            if m206 is not None and it["sweep"] is not None:
                twin = self.twin_core(it["inch"])
                twin.gcode(m206)
                twin.gcode("G0 X%s Y%s" % (plain(it["sx"]), plain(it["sy"])))
                twin.gcode("G1 X%s Y%s" % (words[0][1:], words[1][1:]))
                pa, pb = core.state.position, twin.state.position
                stats["arc_end_vs_linear_move_compared"] += 1
                if abs(pa.X_AXIS.current - pb.X_AXIS.current) > 1e-9 or abs(pa.Y_AXIS.current - pb.Y_AXIS.current) > 1e-9:
                    v.append(dict(kind="arc-end-tracked-elsewhere", idx=-1, cmd="%s ; %s" % (m206, cmd), mechanism=None,
                                  detail="after the arc the tracked position is (%r, %r); after a straight move to the same end point "
                                         "it is (%r, %r)" % (pa.X_AXIS.current, pa.Y_AXIS.current, pb.X_AXIS.current, pb.Y_AXIS.current)))
                    return
            got = con.last_args
            if got[4] != want[4] or any(abs(a - b) > 1e-9 * max(1.0, abs(b)) for a, b in zip(got[:4], want[:4])):
                v.append(dict(kind="handler-planned-a-different-arc", idx=-1, cmd=cmd, mechanism=None,
                              detail="%r from (%r, %r): planArc was given %r, the words say %r" % (cmd, x, y, got, want)))
                return
        else:
            self.last_plan = (core, (ex, ey, i, j, it["cw"]), (x, y))
            try:
                core.handlers.planArc(ex, ey, i, j, it["cw"])
            except Exception as exc:  # noqa: B902
                v.append(dict(kind="exception", idx=-1, cmd="planArc%r" % ((ex, ey, i, j, it["cw"]),), detail=repr(exc),
                              mechanism=None))
                return
            stats["planarc_direct"] += 1
        if con.calls == nc:
            stats["planarc_not_reached"] += 1
            return
        stats["planarc_contract_evaluations"] += 1
        if it["sweep"] is None:
            stats["full_circles"] += 1
        for msg in con.failures[nf:]:
            v.append(dict(kind="arc-sampling", idx=-1, cmd="planArc from (%r, %r): %r" % (x, y, it), detail=msg, mechanism=None))
        if con.last and con.last["n"] > 3 and len(con.failures) == nf:
            nt.append(digest(it))
            stats["points_checked_arcs_gt3"] += 1

    def check_chain(self, it, stats, v):
        core = Core([], {})
        con = ArcContract(core.handlers)
        core.gcode("G28")
        inch = it["inch0"]
        core.gcode("G20" if inch else "G21")
        unit = 25.4 if inch else 1.0
        core.gcode("G0 X%s Y%s" % (plain(it["sx"] / unit), plain(it["sy"] / unit)))
        for n, arc in enumerate(it["arcs"]):
            if n == 1 and it["switch"]:
                inch = not inch
                core.gcode("G20" if inch else "G21")
            pos = core.state.position
            x, y = pos.X_AXIS.nativeToLogical(), pos.Y_AXIS.nativeToLogical()
            r = arc["r"] / (25.4 if inch else 1.0) * (25.4 if inch else 1.0) / (25.4 if inch else 1.0) if inch else arc["r"]
            cx, cy = x - r * math.cos(arc["a0"]), y - r * math.sin(arc["a0"])
            a1 = arc["a0"] - arc["sweep"] if arc["cw"] else arc["a0"] + arc["sweep"]
            ex, ey = cx + r * math.cos(a1), cy + r * math.sin(a1)
            cmd = "%s X%s Y%s I%s J%s" % ("G2" if arc["cw"] else "G3", plain(ex, 7), plain(ey, 7), plain(cx - x, 7), plain(cy - y, 7))
            nf, nc = len(con.failures), con.calls
            try:
                core.gcode(cmd)
            except Exception as exc:  # noqa: B902
                v.append(dict(kind="exception", idx=-1, cmd=cmd, detail=repr(exc), mechanism=None))
                return
            if con.calls > nc:
                stats["planarc_contract_evaluations"] += 1
                stats["planarc_chained"] += 1
            for msg in con.failures[nf:]:
                v.append(dict(kind="arc-sampling", idx=-1, cmd="chained arc %d: %s (units %s)" % (n + 1, cmd, "inch" if inch else "mm"),
                              detail=msg, mechanism=None))

    def check_fromhome(self, it, stats, v):
        core = Core([], {})
        con = ArcContract(core.handlers)
        core.gcode("G28")
        if it["inch"]:
            core.gcode("G20")
        core.gcode(it["off"])
        if it["off"].startswith("M206"):
            core.gcode("G28")          # re-home: the native coordinate is 0 again, the home offset stays
        pos = core.state.position
        ax, ay = pos.X_AXIS, pos.Y_AXIS
        x = (ax.current - ax.offset - ax.homeOffset) / ax.unitMultiplier
        y = (ay.current - ay.offset - ay.homeOffset) / ay.unitMultiplier
        r, a0 = it["r"], it["a0"]
        cx, cy = x - r * math.cos(a0), y - r * math.sin(a0)
        a1 = a0 - it["sweep"] if it["cw"] else a0 + it["sweep"]
        ex, ey = cx + r * math.cos(a1), cy + r * math.sin(a1)
        cmd = "%s X%s Y%s I%s J%s" % ("G2" if it["cw"] else "G3", plain(ex, 7), plain(ey, 7), plain(cx - x, 7), plain(cy - y, 7))
        nf, nc = len(con.failures), con.calls
        try:
            core.gcode(cmd)
        except Exception as exc:  # noqa: B902
            v.append(dict(kind="exception", idx=-1, cmd=cmd, detail=repr(exc), mechanism=None))
            return
        if con.calls > nc:
            stats["planarc_contract_evaluations"] += 1
            stats["planarc_first_move_after_homing_with_offsets"] += 1
        for msg in con.failures[nf:]:
            v.append(dict(kind="arc-sampling", idx=-1, cmd="%s ; %s (first move after homing)" % (it["off"], cmd), detail=msg, mechanism=None))

    def check_repeat(self, it, stats, v):
        last = getattr(self, "last_plan", None)
        if not last:
            return
        core, args, start = last
        con = core.contract
        x, y = self.place(core, start[0] + it["dx"], start[1] + it["dy"])
        nf, nc = len(con.failures), con.calls
        try:
            core.handlers.planArc(*args)
        except Exception as exc:  # noqa: B902
            v.append(dict(kind="exception", idx=-1, cmd="planArc%r" % (args,), detail=repr(exc), mechanism=None))
            return
        if con.calls > nc:
            stats["planarc_contract_evaluations"] += 1
            stats["planarc_repeated_arguments"] += 1
        for msg in con.failures[nf:]:
            v.append(dict(kind="arc-sampling", idx=-1, cmd="planArc%r repeated from (%r, %r)" % (args, x, y), detail=msg, mechanism=None))
        self.last_plan = None

    def check_centre_item(self, it, stats, v, nt):
        core = self.core(it["inch"])
        x, y = self.place(core, it["sx"], it["sy"])
        try:
            res = core.handlers.computeArcCenterOffsets(it["ex"], it["ey"], it["R"], it["cw"])
        except Exception as exc:  # noqa: B902
            v.append(dict(kind="exception", idx=-1, cmd="computeArcCenterOffsets %r" % (it,), detail=repr(exc), mechanism=None))
            return
        stats["centre_contract_evaluations"] += 1
        fails, mech = check_centre(x, y, it["ex"], it["ey"], it["R"], it["cw"], res)
        for msg in fails:
            v.append(dict(kind="r-form-centre", idx=-1, cmd="start (%r, %r) %r" % (x, y, it), detail=msg, mechanism=mech))
        if not fails and (res[0] or res[1]):
            nt.append(digest(it))
            stats["centres_returned"] += 1
            if it["ex"] != x and it["ey"] != y:
                stats["centres_returned_oblique"] += 1

    def check_cross(self, it, stats, v, nt):
        core = Core([it["reg"]], {})
        core.gcode("G28")
        if it["inch"]:
            core.gcode("G20")
        core.gcode("G0 X%s Y%s" % (plain(it["sx"], 7), plain(it["sy"], 7)))
        cmd = "%s X%s Y%s I%s J%s E1" % ("G2" if it["cw"] else "G3", plain(it["ex"], 7), plain(it["ey"], 7),
                                         plain(it["i"], 7), plain(it["j"], 7))
        try:
            raw, out, samples = core.gcode(cmd)
        except Exception as exc:  # noqa: B902
            v.append(dict(kind="exception", idx=-1, cmd=cmd, detail=repr(exc), mechanism=None))
            return
        stats["crossing_arcs"] += 1
        if out:
            v.append(dict(kind="crossing-arc-not-suppressed", idx=-1, cmd=cmd,
                          detail="arc reaches %.3f mm into %r but is forwarded: %r" % (it["deep"], it["reg"], out), mechanism=None))
        else:
            nt.append(digest(it))

    def witnesses(self):
        return [("K1", dict(items=[dict(t="centre", inch=False, sx=0.0, sy=0.0, ex=6.0, ey=8.0, R=10.0, cw=True)]))]

    def thresholds(self, tier):
        return {"planarc_contract_evaluations": 2000, "centre_contract_evaluations": 1000, "crossing_arcs": 300,
                "centres_returned": 300, "full_circles": 50}
