"""Common base of the per-property monitors."""
import collections

from ..e2e import run_case, brief, TOL
from ..harness import depth_in, border_eps, retraction_class, digest


class Monitor(object):
    prop = "C00"
    rule = ""
    assumptions = []

    quick_cases = 800
    thorough_secs = 180

    def budget(self, tier):
        if tier == "quick":
            return dict(workers=4, cases=self.quick_cases)
        return dict(workers=16, cases=0, secs=self.thorough_secs, timeout=self.thorough_secs * 6 + 600)

    def thresholds(self, tier):
        return {}

    def witnesses(self):
        return []

    def gen_case(self, rnd, tier, k):
        raise NotImplementedError

    def check_case(self, case):
        raise NotImplementedError


def viol(trace, rec, kind, detail):
    idx = rec["idx"] if rec is not None else -1
    since = None
    if rec is not None and rec.get("closed") and rec.get("ep_open") is not None:
        since = rec["ep_open"] - 1     # the exit sequence depends on the state saved when the episode was entered
    return dict(kind=kind, idx=idx, cmd=None if rec is None else rec.get("cmd"), detail=detail,
                mechanism=trace.mechanism_at(idx, since) if trace is not None else None,
                first_divergence=None if trace is None else trace.first_div)


def common_stats(trace, stats, sets):
    """Event counts and abstract-state coverage shared by all end-to-end monitors."""
    stats["commands"] += len(trace.steps)
    prev = None
    for r in trace.steps:
        if r["kind"] == "g":
            if r.get("is_move"):
                stats["moves_" + r.get("move_kind", "?")] += 1
            if r.get("raw") == "ignore":
                stats["commands_suppressed"] += 1
            elif r.get("raw") == "list":
                stats["commands_rewritten"] += 1
                stats["generated_commands"] += sum(1 for c in r["out"] if c != r["cmd"])
        if r["opened"]:
            stats["episodes_opened"] += 1
        if r["closed"]:
            stats["episodes_closed_by_" + str(r["closed_by"])] += 1
        hs = r.get("hs")
        if hs is not None:
            st = retraction_class(hs)
            sets["states"].add(repr(st))
            if prev is not None:
                cls = r.get("code") or r["kind"]
                sets["transitions"].add(repr((prev, cls, st)))
            prev = st
    if getattr(trace, "kmis", None):
        stats["tracked_frame_differs_from_k2_arithmetic_intervals"] += len(trace.kmis)
    if any(e.get("mech") == "g92_xyz_offset_sign" for e in trace.div_log):
        stats["cases_with_k2_divergence"] += 1
    if trace.truncated:
        stats["truncated:" + trace.truncated.split(":")[0]] += 1
    if trace.diag:
        stats["diagnostic_invariant_failures"] += len(trace.diag)
    if trace.slow:
        stats["slow_case"] += trace.slow
    for e in trace.div_log:
        stats["tracking_divergence:" + str(e["mech"] or "unexplained")] += 1


def pos_diff(a, b):
    return max(abs(a[k] - b[k]) for k in range(3))


def sample_of(case, trace, n=30):
    return dict(cls=case.get("cls"), regions=case.get("regions"), settings=dict(
        (k, v) for k, v in (case.get("settings") or {}).items() if v not in (None, False)), trace=brief(trace, n))


def unrank_sequence(index, nletters, maxlen):
    """index-th sequence (as a list of letter numbers) among all sequences of length 1..maxlen; None when exhausted."""
    for L in range(1, maxlen + 1):
        n = nletters ** L
        if index < n:
            seq = []
            for _ in range(L):
                seq.append(index % nletters)
                index //= nletters
            return seq
        index -= n
    return None


def sequence_space(nletters, maxlen):
    return sum(nletters ** L for L in range(1, maxlen + 1))
