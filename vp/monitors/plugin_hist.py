"""C10 (every print starts from a clean state) and C11 (gating by the print lifecycle): plugin-layer histories."""
import collections
import json

from .base import Monitor, unrank_sequence, sequence_space
from .motion import mk
from ..harness import Plugin, DEFAULT_EXT, DEFAULT_AT, region_payload, digest, setting_bool, RAW_BOOLS
from ..gen import gen_program, gen_regions

EV_START = "PrintStarted"
EV_END = ["PrintDone", "PrintFailed", "PrintCancelling", "PrintCancelled", "Error"]
EV_NEUTRAL = ["PrintPaused", "PrintResumed", "Connected", "Disconnected", "FileDeselected", "Upload", "ZChange", "Home",
              "PositionUpdate", "PrinterStateChanged", "MetadataAnalysisFinished", "Startup", "ClientOpened"]
EV_FILE = "FileSelected"


def check_event_names():
    """The harness uses literal event names; make sure they are the ones this OctoPrint defines."""
    from octoprint.events import Events
    want = dict(PRINT_STARTED=EV_START, PRINT_DONE="PrintDone", PRINT_FAILED="PrintFailed", PRINT_CANCELLING="PrintCancelling",
                PRINT_CANCELLED="PrintCancelled", ERROR="Error", PRINT_PAUSED="PrintPaused", PRINT_RESUMED="PrintResumed",
                FILE_SELECTED=EV_FILE, SETTINGS_UPDATED="SettingsUpdated")
    return [k for k, v in want.items() if getattr(Events, k, None) != v]


CODE_POOL = ["M106", "M104", "M400", "M140", "M107", "M900", "M220", "G4", "M117", "M204", "M205", "M73"]


def code_gen(settings):
    """Commands for codes that are, were or may become configured as extended codes (so that a stale table shows)."""
    pool = sorted(set(CODE_POOL) | set(settings.get("ext") or {}))
    n = [0]

    def gen(rnd):
        n[0] += 1
        if rnd.random() < 0.3:
            # the lines every file repeats verbatim, print after print
            return rnd.choice(["M204 S500", "M205 X8 Y8", "M73 P50", "M204 S500", "M117 Printing...", "M900 K0.05", "G4 P0"])
        c = rnd.choice(pool)
        return "%s %s" % (c, "hello %d" % n[0] if c == "M117" else "S%d" % (n[0] % 250))
    return gen


def program(rnd, regs, settings, n=None, feats=None):
    f = mk(rel=rnd.random() < 0.4, inch=rnd.random() < 0.3, arcs=rnd.random() < 0.5, at=True, fw=rnd.random() < 0.3,
           g92e_retracted=True, p_inside=0.5, extgen=code_gen(settings), p_ext=0.07)
    if f["fw"]:
        f["fwparam"] = rnd.choice(["", "S1"])
    if feats:
        f.update(feats)
    _, g = gen_program(rnd, f, settings, nsteps=n if n is not None else rnd.randint(4, 30), regions=regs)
    return [s for s in g.steps if s[0] in ("g", "at")]


def rand_settings(rnd):
    return dict(clear=(rnd.random() < 0.4) if rnd.random() < 0.8 else rnd.choice(RAW_BOOLS), shrink=rnd.random() < 0.3, g90e=rnd.random() < 0.3,
                enter=rnd.choice([None, None, "M117 entering\nM106 S0 ; fan off\n"]),
                exit=rnd.choice([None, None, "M117 leaving\n\n  M106 S255\n"]),
                ext=dict(DEFAULT_EXT, **rnd.choice([{}, {"M900": "merge"}, {"M220": "first", "G4": "last"}])),
                at=[list(a) for a in DEFAULT_AT], debug=rnd.random() < 0.3,
                logmode=rnd.choice(["octoprint", "octoprint", "dedicated", "both"]))


def gen_history(rnd, regs, settings, nblocks=None):
    """Random plugin-layer history.  Steps: event / g / at / script / api / settings."""
    steps = []
    active = False
    homed = False
    cur_regs = list(regs)
    nid = [0]
    for _ in range(nblocks if nblocks is not None else rnd.randint(3, 14)):
        k = rnd.random()
        if k < 0.2:
            if rnd.random() < 0.25:
                # a job printed from the printer's SD card: same events, other origin
                steps.append(["event", EV_START, dict(name="part.gco", path="part.gco", origin="sdcard", size=4321, owner=None)])
            else:
                steps.append(["event", EV_START])
            active, homed = True, False
        elif k < 0.5:
            # a stretch of G-code / @-commands (maybe outside of a print)
            prog = program(rnd, cur_regs, settings)
            if active and homed:
                prog = [s for s in prog if not (s[0] == "g" and s[1].upper().startswith("G28"))][: rnd.randint(1, 25)]
            else:
                prog = prog[: rnd.randint(1, 25)]
                homed = active
            if rnd.random() < 0.3 and len(prog) > 4:
                # a settings save arriving in the middle of the program (possibly mid-episode)
                cut = rnd.randrange(2, len(prog) - 1)
                settings = dict(settings, clear=settings.get("clear"))
                ext = dict(settings["ext"])
                code = rnd.choice(sorted(ext))
                ext[code] = rnd.choice([m for m in ["exclude", "first", "last"] if m != ext[code]])
                settings["ext"] = ext
                prog = prog[:cut] + [["settings", dict(settings)]] + prog[cut:]
            steps += prog
        elif k < 0.6:
            steps.append(["event", rnd.choice(EV_END)])
            active = False
            if setting_bool(settings.get("clear")):
                cur_regs = []
        elif k < 0.7:
            steps.append(["event", rnd.choice(EV_NEUTRAL)])
        elif k < 0.75:
            if rnd.random() < 0.4:
                path = rnd.choice(["part.gcode", "other.gcode", "folder/part.gcode"])
                steps.append(["event", EV_FILE, dict(name=path.split("/")[-1], path=path, origin=rnd.choice(["local", "sdcard"]))])
            else:
                steps.append(["event", EV_FILE])          # same file selected again
            cur_regs = []
            homed = False
        elif k < 0.83:
            steps.append(["script", rnd.choice(["gcode", "gcode", "other"]),
                          rnd.choice(["afterPrintDone", "afterPrintDone", "beforePrintStarted", "afterPrintCancelled", "afterPrintPaused"])])
        elif k < 0.92:
            nid[0] += 1
            r = gen_regions(rnd, 1)[0]
            r[-1] = "h%d" % nid[0]
            steps.append(["api", "addExcludeRegion", region_payload(r)])
            cur_regs.append(r)
        else:
            settings = dict(settings, clear=(rnd.random() < 0.5) if rnd.random() < 0.7 else rnd.choice(RAW_BOOLS))
            settings.pop("malformed", None)
            if rnd.random() < 0.12:
                settings["malformed"] = rnd.choice(["at-regex", "ext-key"])     # this save also carries a row the plugin cannot convert
            q = rnd.random()
            if q < 0.35:
                # change the mode of a configured code / add or drop one
                ext = dict(settings["ext"])
                code = rnd.choice(sorted(ext) + ["M900", "M220", "M106", "M104", "M400", "M140", "M107"])
                if code in ext and rnd.random() < 0.3 and len(ext) > 1:
                    del ext[code]
                else:
                    ext[code] = rnd.choice(["exclude", "first", "last", "merge" if code != "M117" else "first"])
                settings["ext"] = ext
            elif q < 0.55:
                settings["enter"] = rnd.choice([None, "M117 entering\n", "M106 S0\nM117 in\n"])
                settings["exit"] = rnd.choice([None, "M117 leaving\n", "M106 S255\n"])
            elif q < 0.65:
                settings["g90e"] = not settings.get("g90e")
            elif q < 0.75:
                settings["logmode"] = rnd.choice(["octoprint", "dedicated", "both"])
            elif q < 0.85:
                # same commands and patterns, actions swapped
                settings["at"] = [[c, p, ("enable_exclusion" if a == "disable_exclusion" else "disable_exclusion")]
                                  for c, p, a in settings["at"]]
            steps.append(["settings", dict(settings)])
    return steps


class Driver(object):
    """Executes history steps on a Plugin and returns the observable result of each step."""

    def __init__(self, settings):
        self.p = Plugin(settings)
        self.p.pm.take()

    def do(self, st):
        p = self.p
        k = st[0]
        if k == "event":
            p.event(st[1], st[2] if len(st) > 2 else None)
            return None
        if k == "g":
            raw, out, _ = p.gcode(st[1])
            return ("g", None if raw is None else ("ignore" if isinstance(raw, tuple) else list(out)), p.comm.take())
        if k == "at":
            res, sent = p.at(st[1], st[2])
            return ("at", res, sent)
        if k == "script":
            res = p.script(st[1], st[2])
            return ("script", None if res is None else [list(res[0]) if res[0] is not None else None, res[1]])
        if k == "api":
            return ("api", p.api(st[1], st[2], anon=bool(st[3]) if len(st) > 3 else False))
        if k == "settings":
            p.write_settings(st[1])
            return None
        raise ValueError(k)


TRACK_KEYS = ["x", "y", "z", "e", "abs_xyz", "abs_e", "unit", "offset", "home", "feed", "feedunit", "excluding", "enabled", "lr",
              "pending", "lastpos"]


def tracking(p):
    h = p.hooked()
    d = dict((k, h[k]) for k in TRACK_KEYS)
    d["numCommands"] = p.state.numCommands
    return d


class C11(Monitor):
    prop = "C11"
    quick_cases = 3000
    rule = ("random interleavings of OctoPrint events (print started/done/failed/cancelling/cancelled/error, paused, resumed and "
            "unrelated events, file selected), G-code and @-commands through the real queuing hooks, script-hook calls, settings "
            "updates (clear-after-print on/off) and API adds; a 20-line reference state machine predicts the active flag, the hook "
            "results while inactive and the region list after file selection / print end; non-trivial = history with >= 2 prints "
            "and both values of the clear-after-print setting; distinct by digest")
    assumptions = ["OctoPrint is replaced at its boundary: real settings object, recording plugin manager / comm / current user"]


    # small-scope exhaustive class: every sequence over these 15 steps up to length 3 (quick) / 4 (thorough)
    LETTERS = [[["event", EV_START]], [["event", "PrintDone"]], [["event", "PrintFailed"]], [["event", "PrintCancelling"]],
               [["event", "PrintCancelled"]], [["event", "Error"]], [["event", "PrintPaused"]], [["event", "PrintResumed"]],
               [["event", EV_FILE]],
               [["g", "G28"], ["g", "G1 X5 Y5 Z0.2 F1200"], ["g", "G1 X15 Y15 E1"], ["g", "M117 x"]],
               [["at", "ExcludeRegion", "off"]], [["script", "gcode", "afterPrintDone"]],
               [["settings", "toggle-clear"]], [["api", "addExcludeRegion", dict(type="RectangularRegion", x1=30, y1=30, x2=40, y2=40)]],
               [["g", "G1 X50 Y50 E2"]], [["script", "gcode", "afterPrintCancelled"]]]
    exhaustive_what = ("small scope: every sequence of up to 3 (quick) / 4 (thorough) steps over {the five print-end events, started, "
                       "paused, resumed, file selected, a G-code stretch entering a region, a further move, a disable @-command, the "
                       "afterPrintDone and afterPrintCancelled hooks, a clear-after-print toggle, an API add}, for both initial values of the setting")

    def gen_case(self, rnd, tier, k):
        if k % 4 != 0:
            maxlen = 3 if tier == "quick" else 4
            total = 2 * sequence_space(len(self.LETTERS), maxlen)
            e = (k - k // 4 - 1) * getattr(self, "nshards", 1) + getattr(self, "shard", 0)
            if e < total:
                seq = unrank_sequence(e // 2, len(self.LETTERS), maxlen)
                clear = bool(e % 2)
                steps = []
                cur = clear
                for l in seq:
                    for st in self.LETTERS[l]:
                        if st[0] == "settings":
                            cur = not cur
                            steps.append(["settings", dict(clear=cur)])
                        else:
                            steps.append([st[0]] + [dict(x) if isinstance(x, dict) else x for x in st[1:]])
                return dict(settings=dict(clear=clear), regions=[["rect", 10, 10, 20, 20, "r0"]], steps=steps, small=e,
                            small_total=total)
        settings = rand_settings(rnd)
        regs = gen_regions(rnd, rnd.choice([0, 1, 2]))
        return dict(settings=settings, regions=regs, steps=gen_history(rnd, regs, settings, rnd.randint(4, 25)))

    def check_case(self, case):
        stats = collections.Counter()
        v = []
        bad = check_event_names()
        if bad:
            return dict(violations=[dict(kind="monitor-crash", idx=-1, cmd=None, detail="event names differ: %r" % bad, mechanism=None,
                                         monitor_error=True)], stats=stats, sets={})
        sets = collections.defaultdict(set)
        if "small" in case:
            sets["exhaustive_indices"].add(case["small"])
            stats["exhaustive_of_%d" % case["small_total"]] += 1
        d = Driver(case["settings"])
        p = d.p
        for r in case["regions"]:
            p.api("addExcludeRegion", region_payload(r))
        p.pm.take()
        active = False
        clear = setting_bool(case["settings"].get("clear"))
        prints = 0
        clears = set()
        for i, st in enumerate(case["steps"]):
            before_regions = [r.get("id") for r in p.regions()]
            trk = tracking(p)
            try:
                res = d.do(st)
            except Exception as exc:  # noqa: B902
                if active:
                    stats["exception_while_active_ignored"] += 1     # totality while active is C09's business
                    break
                v.append(dict(kind="exception-while-inactive", idx=i, cmd=repr(st), detail=repr(exc), mechanism=None))
                break
            after_regions = [r.get("id") for r in p.regions()]
            stats["c11_steps"] += 1
            # ---- reference state machine
            if st[0] == "event":
                if st[1] == EV_START:
                    active = True
                    prints += 1
                    clears.add(clear)
                elif st[1] in EV_END:
                    active = False
                    stats["c11_print_end_events"] += 1
                    want = [] if clear else before_regions
                    if after_regions != want:
                        v.append(dict(kind="regions-after-print-end", idx=i, cmd=repr(st), mechanism=None,
                                      detail="clear-after-print=%s: regions %r -> %r" % (clear, before_regions, after_regions)))
                elif st[1] == EV_FILE:
                    stats["c11_file_selected"] += 1
                    if after_regions:
                        v.append(dict(kind="regions-survive-file-selection", idx=i, cmd=repr(st), detail=repr(after_regions), mechanism=None))
                elif after_regions != before_regions:
                    v.append(dict(kind="unrelated-event-changed-regions", idx=i, cmd=repr(st), detail=repr(after_regions), mechanism=None))
            elif st[0] == "settings":
                clear = setting_bool(st[1].get("clear"))
                stats["c11_settings_saves"] += 1
                if st[1].get("malformed"):
                    stats["c11_settings_saves_with_unconvertible_row"] += 1
            if p.unit.isActivePrintJob != active:
                v.append(dict(kind="active-flag-differs", idx=i, cmd=repr(st), mechanism=None,
                              detail="plugin says active=%r, reference state machine says %r" % (p.unit.isActivePrintJob, active)))
                break
            if not active and st[0] in ("g", "at", "script"):
                stats["c11_hook_calls_while_inactive"] += 1
                if st[0] == "g" and (res[1] is not None or res[2]):
                    v.append(dict(kind="gcode-altered-while-inactive", idx=i, cmd=st[1], detail="hook returned %r, sent %r" % (res[1], res[2]), mechanism=None))
                if st[0] == "at" and (res[2] or res[1] is not None):
                    v.append(dict(kind="at-command-acted-while-inactive", idx=i, cmd=repr(st), detail="returned %r sent %r" % (res[1], res[2]), mechanism=None))
                if st[0] == "script" and res[1] is not None and any(bool(x) for x in res[1]):
                    v.append(dict(kind="script-hook-contributed-while-inactive", idx=i, cmd=repr(st), detail=repr(res[1]), mechanism=None))
                if tracking(p) != trk:
                    v.append(dict(kind="tracked-while-inactive", idx=i, cmd=repr(st), detail="tracking state changed outside a print", mechanism=None))
            elif active and st[0] in ("g", "at"):
                stats["c11_hook_calls_while_active"] += 1
            if v:
                break
        return dict(violations=v, nontrivial=(prints >= 2 and len(clears) == 2 and not v), stats=stats, sets=sets,
                    sample=dict(settings=dict(clear=case["settings"].get("clear")), steps=case["steps"][:25]))

    def thresholds(self, tier):
        return {"c11_steps": 5000, "c11_hook_calls_while_inactive": 500, "c11_hook_calls_while_active": 500,
                "c11_print_end_events": 100, "c11_file_selected": 50}


class C10(Monitor):
    prop = "C10"
    quick_cases = 900
    rule = ("differential: plugin P1 lives through a random history (prints aborted mid-episode, disabled exclusion, pending deferred "
            "codes, owed recoveries, inch/relative left on, API edits, settings updates, file selection), then PrintStarted and a "
            "random program Q with @-commands, ending with the afterPrintDone hook; plugin P2 is created fresh with the same settings "
            "and region list, PrintStarted, Q; oracle: step-by-step equality of every observable of Q (hook results, sendCommand "
            "calls, script-hook result) and of the hooked per-print fields right after PrintStarted; non-trivial = history that "
            "ended mid-episode, disabled, retracted or in inch/relative mode; distinct by digest")
    assumptions = C11.assumptions


    def gen_case(self, rnd, tier, k):
        settings = rand_settings(rnd)
        settings["clear"] = rnd.random() < 0.2
        if rnd.random() < 0.12:
            # a print left in inch units, then a millimetre print whose arcs cross thin strips: whatever the arc sampling keeps
            # from the earlier print decides whether a strip is noticed
            settings["clear"] = False
            regs = [["rect", 5.0, y, 55.0, y + rnd.choice([0.2, 0.3, 0.5]), "s%d" % n] for n, y in enumerate((15.0, 30.0, 45.0))]
            hist = [["event", EV_START]] + program(rnd, regs, settings, rnd.randint(5, 25), feats=dict(inch=True, rel=False)) \
                + [["g", "G20"]] + [["event", rnd.choice(EV_END)]]
            return dict(settings=settings, regions=regs, history=hist, q_seed=rnd.randint(0, 10 ** 9),
                        q_feats=dict(arcs=True, p_arc=0.3, inch=False, rel=False, fw=False, p_inside=0.2))
        regs = gen_regions(rnd, rnd.choice([1, 2, 3]))
        hist = [["event", EV_START]] + program(rnd, regs, settings, rnd.randint(5, 50))
        extra = gen_history(rnd, regs, settings, rnd.randint(0, 6))
        # the history ends in an arbitrary situation: mostly no print-end event at all (aborted mid-way)
        if rnd.random() < 0.5:
            hist = extra + hist
        else:
            hist = hist + extra
        if rnd.random() < 0.3:
            # commands with a sub-code during the earlier print (the parser instance is shared with the script splitter), and a
            # settings save (unchanged or not) before the next print
            for _ in range(rnd.randint(1, 3)):
                hist.insert(rnd.randrange(1, len(hist) + 1), ["g", rnd.choice(["G92.1", "G38.2 Z0 F100", "M117.2 hi", "G5.1 X1"])])
            if rnd.random() < 0.7:
                last = [st[1] for st in hist if st[0] == "settings"]
                hist.append(["settings", dict(last[-1] if last else settings)])
        return dict(settings=settings, regions=regs, history=hist, q_seed=rnd.randint(0, 10 ** 9))

    def check_case(self, case):
        import random
        stats = collections.Counter()
        v = []
        d1 = Driver(case["settings"])
        p1 = d1.p
        for r in case["regions"]:
            p1.api("addExcludeRegion", region_payload(r))
        settings = dict(case["settings"])
        try:
            for st in case["history"]:
                if st[0] == "settings" and "malformed" in st[1]:
                    # a save the plugin cannot convert leaves it half-updated; there is no fresh plugin to compare that with
                    st = ["settings", dict((k, w) for k, w in st[1].items() if k != "malformed")]
                d1.do(st)
                if st[0] == "settings":
                    settings = dict(st[1])
        except Exception:  # noqa: B902
            stats["history_raised"] += 1       # e.g. a move before homing in a second print: by design (C09 covers totality)
        h = p1.hooked()
        dirty = []
        if h["excluding"]:
            dirty.append("mid-episode")
        if not h["enabled"]:
            dirty.append("disabled")
        if h["lr"] is not None:
            dirty.append("retraction-pending")
        if h["pending"]:
            dirty.append("deferred-pending")
        if h["unit"][0] != 1.0 or h["abs_xyz"][0] is False:
            dirty.append("inch-or-relative")
        for x in dirty:
            stats["dirty:" + x] += 1
        regions_now = p1.regions()
        # fresh plugin with the same settings and the same region list - built from a re-imported package, so that it is as fresh
        # as after a server restart (class- and module-level leftovers of the used plugin are not shared)
        from ..harness import fresh_plugin_module
        fresh_plugin_module()
        d2 = Driver(settings)
        p2 = d2.p
        for r in regions_now:
            p2.api("addExcludeRegion", dict(r))
        # Q is generated against the regions that are actually defined now
        rq = random.Random(case["q_seed"])
        regs_t = [(["rect", r["x1"], r["y1"], r["x2"], r["y2"], r["id"]] if r["type"] == "RectangularRegion"
                   else ["circ", r["cx"], r["cy"], r["r"], r["id"]]) for r in regions_now]
        body = program(rq, regs_t, settings, rq.randint(5, 45), feats=case.get("q_feats"))
        if case["q_seed"] % 7 == 3 and body and body[0][0] == "g" and body[0][1] == "G28":
            body[0] = ["g", "G28 O"]          # "home if needed" (Marlin): the filter homes its tracked position all the same
        if case["q_seed"] % 17 == 0:
            body = body[:case["q_seed"] % 3]      # a job of (next to) no lines: the script hook is the first thing it asks for
        q = [["event", EV_START]] + body + [["script", "gcode", "afterPrintDone"]]
        for i, st in enumerate(q):
            try:
                r1 = d1.do(st)
                e1 = None
            except Exception as exc:  # noqa: B902
                r1, e1 = None, repr(exc)
            try:
                r2 = d2.do(st)
                e2 = None
            except Exception as exc:  # noqa: B902
                r2, e2 = None, repr(exc)
            stats["c10_steps_compared"] += 1
            if i == 0:
                # diagnostic only: names the leaking field in the report; the verdict is behavioural
                t1, t2 = tracking(p1), tracking(p2)
                leak = [k for k in t1 if t1[k] != t2[k]]
                if leak:
                    stats["diagnostic_state_differs_after_print_started"] += 1
            if (r1, e1) != (r2, e2):
                v.append(dict(kind="used-plugin-differs-from-fresh", idx=i, cmd=repr(st), mechanism=None,
                              detail="used plugin: %r %r; fresh plugin: %r %r; history ended %r; hooked fields that differed right "
                                     "after PrintStarted: %r" % (r1, e1, r2, e2, dirty, leak)))
                break
            if e1 is not None:
                break
        return dict(violations=v, nontrivial=bool(dirty) and not v, stats=stats, sets={},
                    sample=dict(history_tail=case["history"][-8:], dirty=dirty, q_head=q[:10]))

    def thresholds(self, tier):
        return {"c10_steps_compared": 3000, "dirty:mid-episode": 30, "dirty:retraction-pending": 30, "dirty:disabled": 10,
                "dirty:inch-or-relative": 30}
