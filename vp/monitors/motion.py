"""C01, C03, C04, C05, C14: reference-printer oracles over end-to-end traces (core layer)."""
import collections

from .base import Monitor, viol, common_stats, pos_diff, sample_of
from ..e2e import run_case, TOL
from ..gen import fmt, gen_program, gen_exact_case, exhaustive_case, exhaustive_total, gen_regions
from ..harness import depth_in, border_eps, DEFAULT_AT

ETOL = 1e-9


def etol(*vals):
    return ETOL * (1.0 + max(abs(v) for v in vals))


def xy_moved(m):
    return abs(m["frm"][0] - m["to"][0]) > 1e-9 or abs(m["frm"][1] - m["to"][1]) > 1e-9


def xyz_moved(m):
    return xy_moved(m) or abs(m["frm"][2] - m["to"][2]) > 1e-9


# =========================================================================================== oracles

def oracle_c01(tr, stats):
    out = []
    for r in tr.steps:
        regs = r["regs"]
        enabled = r["enabled_after"] and not r.get("disabled_during")
        if r["kind"] == "script":
            # the clean-up of a job that completes inside a region takes the tool to where the file is (C15 demands exactly that)
            continue
        for m in r["a_moves"]:
            if m["kind"] == "home":
                continue
            if enabled and regs and xy_moved(m):
                stats["c01_moves_judged"] += 1
                x, y = m["to"][0], m["to"][1]
                d = depth_in(regs, x, y)
                if abs(d) < border_eps(x, y) and not tr.case.get("exact"):
                    stats["c01_borderline_skipped"] += 1
                elif d >= 0:
                    out.append(viol(tr, r, "move-into-region",
                                    "forwarded %r moves the tool to (%.6f, %.6f), %.6f mm inside a region" % (m["src"], x, y, d)))
                elif m["kind"] == "arc":
                    stats["c01_arcs_judged"] += 1
                    if depth_in(regs, m["frm"][0], m["frm"][1]) < -border_eps(x, y):
                        deep = max(depth_in(regs, p[0], p[1]) for p in m["pts"])
                        if deep > 0.5 * r["B_before"]["unit"] + 1e-6:
                            out.append(viol(tr, r, "arc-through-region",
                                            "forwarded arc %r passes %.4f mm deep through a region" % (m["src"], deep)))
        if r["open_after"] and r["kind"] in ("g", "at"):
            stats["c01_steps_in_episode"] += 1
            for m in r["a_moves"]:
                if xyz_moved(m):
                    out.append(viol(tr, r, "motion-in-episode", "%r moves the tool %r -> %r while an episode is open"
                                    % (m["src"], m["frm"], m["to"])))
                if m["de"] > 1e-9:
                    out.append(viol(tr, r, "extrusion-in-episode", "%r advances filament by %.6f while an episode is open"
                                    % (m["src"], m["de"])))
            for f in r.get("a_fw", []):
                if f[0] == "G11":
                    out.append(viol(tr, r, "fw-recover-in-episode", "G11 reaches the printer while an episode is open"))
    return out


def z_order(tr, r, stats, kind="z-order"):
    out = []
    z0 = r["A_before"]["pos"][2]
    zt = r["B_after"]["pos"][2]
    zmax = max(z0, zt)
    for m in r["a_moves"]:
        if xy_moved(m):
            stats["c03_resync_travels"] += 1
            if abs(m["frm"][2] - zmax) > TOL or abs(m["to"][2] - zmax) > TOL:
                out.append(viol(tr, r, kind, "re-positioning travel %r happens at Z %.4f -> %.4f, expected max(previous %.4f, target %.4f)"
                                % (m["src"], m["frm"][2], m["to"][2], z0, zt)))
    return out


def resync(tr, r, stats, prefix=""):
    out = []
    A, B = r["A_after"], r["B_after"]
    if pos_diff(A["pos"], B["pos"]) > TOL:
        out.append(viol(tr, r, prefix + "position-mismatch", "printer at %r, unfiltered file at %r" % (A["pos"], B["pos"])))
    if A["abs_xyz"] != B["abs_xyz"]:
        out.append(viol(tr, r, prefix + "mode-mismatch", "printer absolute=%s, file absolute=%s" % (A["abs_xyz"], B["abs_xyz"])))
    if A["unit"] != B["unit"]:
        out.append(viol(tr, r, prefix + "unit-mismatch", "printer unit=%s, file unit=%s" % (A["unit"], B["unit"])))
    return out


def oracle_c03(tr, stats):
    out = []
    for r in tr.steps:
        if r["kind"] != "g" or not r.get("is_move") or r.get("dest_in"):
            continue
        stats["c03_outside_moves"] += 1
        out += resync(tr, r, stats)
        if r["closed"]:
            stats["c03_closing_steps"] += 1
            out += z_order(tr, r, stats)
    return out


def oracle_c04(tr, stats):
    out = []
    for r in tr.steps:
        if r["kind"] not in ("g", "at"):
            continue
        A, B = r["A_after"], r["B_after"]
        if not r["open_after"]:
            stats["c04_e_compared"] += 1
            if abs(A["e"] - B["e"]) > etol(A["e"], B["e"]):
                out.append(viol(tr, r, "extruder-coordinate-mismatch",
                                "outside every region the printer's E is %.9f, the file assumes %.9f" % (A["e"], B["e"])))
        if r["kind"] != "g":
            continue
        forwarded = r["cmd"] in r["out"]
        db = B["fil"] - r["B_before"]["fil"]
        if r.get("is_move") and db > 1e-9 and forwarded and not r["open_before"] and not r["open_after"]:
            stats["c04_forwarded_extrusions"] += 1
            mine = [m for m in r["a_moves"] if m["src"] == r["cmd"]]
            if mine:
                da = mine[-1]["de"]
                if abs(da - db) > etol(da, db, A["e"]):
                    out.append(viol(tr, r, "forwarded-move-extrusion-differs",
                                    "the forwarded move pushes %.9f mm of filament, the file specifies %.9f" % (da, db)))
        if r.get("is_move") and not forwarded:
            stats["c04_suppressed_moves"] += 1
            da = A["fil"] - r["A_before"]["fil"]
            if da > 1e-9:
                out.append(viol(tr, r, "suppressed-move-pushes-filament", "suppressed move, yet filament advanced %.9f" % da))
    return out


def oracle_c05(tr, stats, firmware):
    out = []
    maxb = 0.0
    for r in tr.steps:
        if r["kind"] not in ("g", "at", "script"):
            continue
        A, B = r["A_after"], r["B_after"]
        maxb = max(maxb, B["depth"], r["B_before"]["depth"])
        tol = etol(A["fil"], B["fil"], A["hi"], B["hi"]) * 10
        if not firmware:
            stats["c05_depth_compared"] += 1
            if A["depth"] > maxb + tol:
                out.append(viol(tr, r, "retracted-deeper-than-file-ever", "physical retraction %.9f > deepest requested so far %.9f"
                                % (A["depth"], maxb)))
            if A["depth"] < B["depth"] - tol:
                out.append(viol(tr, r, "shallower-than-file", "physical retraction %.9f < file's current %.9f"
                                % (A["depth"], B["depth"])))
            for m in r["a_moves"]:
                if xy_moved(m) and m["de"] > 1e-9:
                    stats["c05_extruding_moves"] += 1
                    if abs(m["depth_before"] - r["B_before"]["depth"]) > tol:
                        out.append(viol(tr, r, "extruding-while-depth-differs",
                                        "printing move %r starts at retraction depth %.9f, file assumes %.9f"
                                        % (m["src"], m["depth_before"], r["B_before"]["depth"])))
        else:
            for f in r.get("a_fw", []):
                stats["c05_fw_commands"] += 1
                if f[0] == "G10" and f[2]:
                    out.append(viol(tr, r, "double-firmware-retract", "G10 reaches the printer while it is already retracted"))
                if f[0] == "G11" and not f[2]:
                    out.append(viol(tr, r, "firmware-recover-without-retract", "G11 reaches the printer while it is not retracted"))
                want = tr.case.get("fwparam", "")
                if "".join(f[1].split()).upper() != "".join(want.split()).upper():       # word letters are case-insensitive
                    out.append(viol(tr, r, "firmware-parameters-lost", "%s carries parameters %r, the file's G10 has %r" % (f[0], f[1], want)))
            if B["fw"] and not A["fw"]:
                out.append(viol(tr, r, "firmware-shallower-than-file", "file is firmware-retracted, the printer is not"))
            for m in r["a_moves"]:
                if xy_moved(m) and m["de"] > 1e-9:
                    stats["c05_extruding_moves"] += 1
                    if m["fw_before"] != r["B_before"]["fw"]:
                        out.append(viol(tr, r, "extruding-while-firmware-parity-differs",
                                        "printing move %r with printer retracted=%s, file retracted=%s"
                                        % (m["src"], m["fw_before"], r["B_before"]["fw"])))
    return out


def oracle_c14(tr, stats):
    out = []
    prev_hs = None
    for r in tr.steps:
        hs = r.get("hs")
        if r["kind"] == "g" and r.get("is_move"):
            if not r["enabled_after"]:
                stats["c14_moves_while_disabled"] += 1
                if r["cmd"] not in r["out"]:
                    out.append(viol(tr, r, "suppressed-while-disabled", "move suppressed although exclusion is disabled; out=%r" % (r["out"],)))
                if hs is not None:
                    B = r["B_after"]["pos"]
                    if any(hs[a] is None or abs(hs[a] - B[k]) > TOL for k, a in enumerate("xyz")):
                        out.append(viol(tr, r, "not-tracked-while-disabled",
                                        "tracked position (%r, %r, %r) differs from the true position %r while disabled"
                                        % (hs["x"], hs["y"], hs["z"], B)))
            else:
                stats["c14_moves_while_enabled"] += 1
                forwarded = r["cmd"] in r["out"]
                if r.get("dest_in") and forwarded:
                    out.append(viol(tr, r, "decision-differs-from-reference", "destination is inside a region (true position) but the move is forwarded"))
                if not r.get("dest_in") and not r["open_before"] and not forwarded:
                    out.append(viol(tr, r, "decision-differs-from-reference", "destination is outside every region and no episode is open, but the move is not forwarded; out=%r" % (r["out"],)))
        if r["kind"] == "at":
            stats["c14_at_commands"] += 1
            if r["closed_by"] == "at":
                stats["c14_disable_inside_episode"] += 1
                out += resync(tr, r, stats, "disable-")
                out += z_order(tr, r, stats, "disable-z-order")
                if hs is not None and hs["excluding"]:
                    out.append(viol(tr, r, "episode-not-closed-by-disable", "still excluding after the disable @-command"))
            if not r.get("expect_handled"):
                stats["c14_unmatched_or_streaming"] += 1
                if r.get("handled") or r["sent"]:
                    out.append(viol(tr, r, "unmatched-at-command-acted", "handled=%r sent=%r" % (r.get("handled"), r["sent"])))
                if prev_hs is not None and hs is not None and prev_hs != hs:
                    out.append(viol(tr, r, "unmatched-at-command-changed-state", "tracking state changed"))
            else:
                if r.get("handled") is False and "handled" in r and r["handled"] is not None:
                    out.append(viol(tr, r, "matched-at-command-not-handled", "a configured action matches but handleAtCommand returned False"))
                if r["closed_by"] != "at" and r["sent"]:
                    out.append(viol(tr, r, "at-command-sent-commands", "no episode was open, yet commands were sent: %r" % (r["sent"],)))
                if hs is not None and hs["enabled"] != r["enabled_after"]:
                    out.append(viol(tr, r, "enabled-flag-differs", "filter enabled=%r, reference=%r" % (hs["enabled"], r["enabled_after"])))
        prev_hs = hs
    return out


# =========================================================================================== monitors

def scripts_for(rnd):
    k = rnd.random()
    if k < 0.6:
        return None, None
    return (rnd.choice([None, ["M117 entering"], ["M117 entering", "M106 S0"]]),
            rnd.choice([None, ["M117 leaving"], ["M106 S255", "M117 leaving"]]))


class MotionMonitor(Monitor):
    classes = []      # (weight, name, feats)

    def pick_class(self, rnd):
        tot = sum(w for w, _, _ in self.classes)
        x = rnd.uniform(0, tot)
        for w, name, feats in self.classes:
            x -= w
            if x <= 0:
                return name, dict(feats)
        return self.classes[-1][1], dict(self.classes[-1][2])

    def settings_for(self, rnd, feats):
        enter, exit_ = scripts_for(rnd)
        s = dict(g90e=False, enter=enter, exit=exit_)
        return s

    exhaustive = None       # (quick maxlen, thorough maxlen): enumerate the retraction automaton's event sequences completely
    exhaustive_what = ("every event sequence over {retract, recover, print inside/outside, travel inside/outside} with matched "
                       "cycles up to the length bound (quick 5, thorough 7), E-only and firmware retraction, one region")

    def ex_index(self, k, tier):
        """Index into the exhaustive sub-space for case k of this shard, or None (quick: every 2nd case, thorough: 3 of 4)."""
        if tier == "quick":
            if k % 2:
                return None
            j = k // 2
        else:
            if k % 4 == 0:
                return None
            j = k - k // 4 - 1
        return j * getattr(self, "nshards", 1) + getattr(self, "shard", 0)

    def gen_case(self, rnd, tier, k):
        e = self.ex_index(k, tier) if self.exhaustive else None
        if e is not None:
            maxlen = self.exhaustive[0 if tier == "quick" else 1]
            case = exhaustive_case(e // 2, maxlen, firmware=bool(e % 2), variant=1)
            if case is not None:
                case["exhaustive_of"] = 2 * exhaustive_total(maxlen)
                return case
        name, feats = self.pick_class(rnd)
        if name == "exact-border":
            return gen_exact_case(rnd)
        settings = self.settings_for(rnd, feats)
        if feats.get("fw"):
            feats["fwparam"] = rnd.choice(["", "", "S1", "S0", "S"])       # "G10 S": a flag without a value
            feats["fwnospace"] = rnd.random() < 0.3       # "G10S1" is legal G-code too
        long_ = tier == "thorough" and rnd.random() < 0.05
        regs0 = [] if (feats.get("addregion") and rnd.random() < 0.4) else None     # regions only come into being during the job
        regs, g = gen_program(rnd, feats, settings, nsteps=rnd.randint(100, 600) if long_ else None, regions=regs0)
        case = dict(cls=name, settings=settings, regions=regs, steps=g.steps, tags=sorted(g.tags))
        if feats.get("fw"):
            case["fw"] = True
            case["fwparam"] = feats["fwparam"]
        share = self.plugin_share * (8 if (feats.get("addregion") and self.plugin_share) else 1)
        if rnd.random() < share:
            case = self.as_plugin_case(case)
        return case

    def oracle(self, tr, stats, case):
        raise NotImplementedError

    def nontrivial(self, tr, case):
        return any(e["close"] is not None for e in tr.episodes)

    plugin_share = 0.05     # share of the random cases that go through the real plugin object and its registered hooks

    def as_plugin_case(self, case):
        """The same case through the plugin layer: __plugin_load__, the hook table, settings stored in the settings object,
        regions added through the API, a PrintStarted event first."""
        st = dict(case["settings"])
        for key in ("enter", "exit"):
            if isinstance(st.get(key), (list, tuple)):
                st[key] = "\n".join(st[key]) + "\n"
        st.setdefault("clear", False)
        st.setdefault("shrink", any(x[0] == "api_delete" for x in case["steps"]))
        steps = [["event", "PrintStarted"]] + list(case["steps"])
        h = len(repr(case["steps"][:9])) * 2654435761 % 1000
        regs = [r for r in case.get("regions") or [] if all(isinstance(q, (int, float)) and abs(q) < 1e6 for q in r[1:-1])]
        if h % 4 == 0 and regs and case["steps"] and case["steps"][0] == ["g", "G28"]:
            # an earlier run of the job, abandoned without any end event (inside a region, with exclusion switched off, or in
            # relative mode), then the job starts again from the top: the second run owes nothing to the first
            r0 = regs[0]
            cin = ((r0[1] + r0[3]) / 2.0, (r0[2] + r0[4]) / 2.0) if r0[0] == "rect" else (r0[1], r0[2])
            outs = [q for q in ((-30.0, -30.0), (200.0, 200.0), (-30.0, 200.0), (300.0, -40.0)) if depth_in(regs, q[0], q[1]) < -1.0]
            if outs and depth_in(regs, cin[0], cin[1]) > 0.2:
                first = [["g", "G28"], ["g", "G1 X%s Y%s Z0.4 F3000" % (fmt(outs[0][0], 3), fmt(outs[0][1], 3))]]
                first += {0: [["g", "G1 X%s Y%s E1" % (fmt(cin[0], 3), fmt(cin[1], 3))], ["g", "G1 Z2.5"]],
                          1: [["at", "ExcludeRegion", "off"]],
                          2: [["g", "G91"], ["g", "G1 X2 Y2"]],
                          3: [["g", "G1 X%s Y%s E1" % (fmt(cin[0], 3), fmt(cin[1], 3))], ["g", "M204 S777"], ["g", "G20"]]}[(h // 4) % 4]
                steps = [["event", "PrintStarted"]] + first + [["event", "PrintStarted"], ["g", "G92 E0"], ["g", "G21"], ["g", "G90"]] \
                    + list(case["steps"])
        if h % 3 == 0:
            # the end script is rendered (and its lines queued) before the PrintDone event arrives
            steps += [["script", "gcode", "afterPrintDone"], ["g", "G91"], ["g", "G1 Z10"], ["g", "G90"], ["event", "PrintDone"]]
        if len(steps) > 8:
            # the firmware's position report (M114 reply) arrives as an event now and then; what it says is the printer's business
            k = 3 + (len(repr(case["steps"][:7])) * 31) % (len(steps) - 4)
            steps.insert(k, ["event", "PositionUpdate", dict(x=1.0, y=2.0, z=3.0, e=4.0, t=0, f=1500.0, reason=None)])
        n = len(steps)
        if n > 6:
            # a pause and a resume somewhere in the job (digest-derived positions: the case stays a function of its content)
            a = 2 + (len(repr(case["steps"][:5])) * 7919) % (n - 3)
            b = min(n, a + 1 + (len(repr(case["steps"][-5:])) * 104729) % 9)
            steps.insert(b, ["event", "PrintResumed"])
            steps.insert(a, ["event", "PrintPaused"])
        return dict(case, plugin=True, settings=st, steps=steps)

    def run_plugin_case(self, case):
        from ..harness import Plugin, region_payload
        from ..e2e import Engine
        p = Plugin(case["settings"])
        for r in case["regions"]:
            p.api("addExcludeRegion", region_payload(r))
        p.add_region = lambda r: p.api("addExcludeRegion", region_payload(r))
        eng = Engine(case, driver=p)
        eng.active = False
        return eng.run()

    def check_case(self, case):
        stats = collections.Counter()
        sets = collections.defaultdict(set)
        if case.get("plugin"):
            tr = self.run_plugin_case(case)
            stats["cases_through_the_registered_plugin_hooks"] += 1
        else:
            tr = run_case(case)
        common_stats(tr, stats, sets)
        stats["class:" + str(case.get("cls"))] += 1
        if case.get("cls") == "exhaustive-automaton":
            sets["exhaustive_indices"].add((case["exhaustive_index"], bool(case.get("fw"))))
            stats["exhaustive_of_%d" % case.get("exhaustive_of", 0)] += 1
        v = self.oracle(tr, stats, case)
        if tr.exc is not None:
            stats["exceptions_in_filter"] += 1
            v.append(dict(kind="exception", idx=tr.exc[0], cmd=tr.exc[1], detail=tr.exc[2],
                          mechanism=tr.mechanism_at(tr.exc[0])))
        return dict(violations=v, nontrivial=self.nontrivial(tr, case) and not v, stats=stats, sets=sets,
                    sample=sample_of(case, tr))


BASE = dict(zmoves=True, g92e=True, ext=True, beds=True, sentinels=True)


def mk(**kw):
    d = dict(BASE)
    d.update(kw)
    return d


K2_WITNESS = dict(cls="witness-K2", settings={}, regions=[["rect", -90, -90, -80, -80, "r0"]],
                  steps=[["g", "G28"], ["g", "G1 X50 Y50 Z0.2 F3000"], ["g", "G92 X0 Y0"], ["g", "G1 X-35 Y-35 E1"],
                         ["g", "G1 X-45 Y-45 E2"]])
K3_WITNESS_C01 = dict(cls="witness-K3", settings={}, regions=[["rect", 36, 25, 45, 35, "r0"]],
                      steps=[["g", "G28"], ["g", "G1 X30 Y30 Z0.2 F3000"], ["g", "G91"], ["g", "G2 X4 Y0 I2 J0 E1"],
                             ["g", "G1 X5 Y0 E1"], ["g", "G90"], ["g", "G1 X5 Y5"]])
K3_WITNESS_C03 = dict(cls="witness-K3", settings={}, regions=[["rect", 360, 325, 370, 340, "r0"]],
                      steps=[["g", "G28"], ["g", "G1 X30 Y30 Z0.2 F3000"], ["g", "G91"], ["g", "G2 X4 Y0 I2 J0 E1"],
                             ["g", "G1 X5 Y0 E1"], ["g", "G90"], ["g", "G1 X5 Y5"]])


class C01(MotionMonitor):
    prop = "C01"
    quick_cases = 2700
    exhaustive = (5, 7)
    rule = ("random programs (abstract tool path, then encoded) through the real handleGcode/handleAtCommand; the emitted "
            "stream is executed on reference printer A, the unfiltered one on B; a case is non-trivial when at least one "
            "reference episode opened AND closed and no violation was found; distinct = distinct digest of (settings, regions, steps)")
    assumptions = ["reference printer implements Marlin>=1.1 semantics for G0-G3,G10,G11,G20,G21,G28,G90,G91,G92",
                   "arcs are classified on the sample points observed at planArc (faithfulness is C16)",
                   "decisions closer than 1e-7 mm to a border are truncated, except in the exact-border class"]
    classes = [(3, "abs-mm", mk(arcs=True)), (2, "rel-inch", mk(rel=True, inch=True, arcs=True)),
               (2, "firmware", mk(fw=True, arcs=True)), (2, "at-commands", mk(at=True, arcs=True, rel=True, p_at=0.07, p_inside=0.5)),
               (2, "region-additions", mk(addregion=True, arcs=True, arcs_rel=True, rel=True, at=True)),
               (1.5, "regions-added-and-deleted", mk(addregion=True, delregion=True, rel=True, at=True, p_inside=0.6, boost_add=0.1)),
               (2, "everything", mk(rel=True, inch=True, arcs=True, at=True, addregion=True, g28mid=True, retmove=True,
                                    spell=True, g92e_retracted=True)),
               (1.5, "exact-border", {}), (1.5, "arcs-under-g91", mk(rel=True, arcs=True, arcs_rel=True)),
               (1.5, "g90-influences-extruder", mk(rel=True, arcs=True, at=True, g90e=True)),
               (1, "g90-influences-extruder-inch", mk(rel=True, inch=True, g90e=True, p_inside=0.5)),
               (1, "firmware-unmatched", mk(fw=True, fw_stray=True, p_inside=0.5)),
               (1, "arcs-under-g91-inch", mk(rel=True, inch=True, arcs=True, arcs_rel=True, p_arc=0.1, start_rel=0.5)),
               (1.5, "spelled-arcs", mk(arcs=True, spell=True, p_arc=0.25, p_inside=0.5)),
               (1.5, "homing-mid-print", mk(rel=True, g28mid=True, boost=0.1, p_inside=0.5))]

    def settings_for(self, rnd, feats):
        s = MotionMonitor.settings_for(self, rnd, feats)
        s["g90e"] = bool(feats.get("g90e"))
        return s

    def oracle(self, tr, stats, case):
        return oracle_c01(tr, stats)

    def thresholds(self, tier):
        return {"episodes_opened": 50, "c01_moves_judged": 200, "c01_steps_in_episode": 100,
                "cases_through_the_registered_plugin_hooks": 20}

    def regressions(self):
        return [("arc-under-g91", K3_WITNESS_C01)]


class C03(MotionMonitor):
    prop = "C03"
    quick_cases = 2500
    rule = ("as C01; oracle compares printer A with printer B after every move whose points are all outside; non-trivial = "
            "a closing step whose episode's entering move changed Z, or that happened in relative or inch encoding")
    assumptions = C01.assumptions
    classes = [(3, "abs-mm-z", mk(arcs=True, at=True)), (3, "relative", mk(rel=True, arcs=True, arcs_rel=True, at=True)),
               (2, "inch", mk(inch=True, arcs=True)),
               (3, "rel-inch-switching", mk(rel=True, inch=True, arcs=True, arcs_rel=True, spell=True, p_arc=0.08)),
               (1, "firmware", mk(fw=True, rel=True)), (1, "g28-mid", mk(g28mid=True, rel=True, inch=True)),
               (0.5, "g92xyz-outside-episodes", mk(g92xyz=True, rel=True, g28mid=True, boost=0.1)),
               (0.5, "g92xyz-and-unit-switches", mk(g92xyz=True, inch=True, g28mid=True, boost=0.1)),
               (1.5, "arcs-under-g91", mk(rel=True, arcs=True, arcs_rel=True)),
               (1, "retract-on-move-relative", mk(rel=True, retmove=True, p_retmove=0.08, start_rel=0.6, p_inside=0.5)),
               (1.5, "regions-added-and-deleted", mk(addregion=True, delregion=True, rel=True, p_inside=0.6, boost_add=0.1))]

    def oracle(self, tr, stats, case):
        return oracle_c03(tr, stats)

    def nontrivial(self, tr, case):
        for e in tr.episodes:
            if e["close"] is None or e["by"] != "move":
                continue
            o, c = tr.steps[e["open"]], tr.steps[e["close"]]
            if abs(o["B_after"]["pos"][2] - o["B_before"]["pos"][2]) > 1e-9:
                return True
            if not c["B_after"]["abs_xyz"] or c["B_after"]["unit"] != 1.0:
                return True
        return False

    def thresholds(self, tier):
        return {"c03_closing_steps": 50, "c03_outside_moves": 500, "c03_resync_travels": 50,
                "cases_through_the_registered_plugin_hooks": 20}

    def witnesses(self):
        return [("K2", K2_WITNESS)]

    def regressions(self):
        return [("arc-under-g91", K3_WITNESS_C03)]


class ExtrusionMonitor(MotionMonitor):
    def settings_for(self, rnd, feats):
        s = MotionMonitor.settings_for(self, rnd, feats)
        s["g90e"] = False     # absolute extrusion throughout (quantifier of C04/C05)
        return s


class C04(ExtrusionMonitor):
    prop = "C04"
    quick_cases = 3000
    exhaustive = (5, 7)
    rule = ("programs in absolute extrusion mode with matched equal-length retract/recover cycles (E-only or firmware), G92 E "
            "anywhere, mm/inch; oracle compares E and pushed filament of printer A vs B; non-trivial = an episode closed "
            "while a recovery was owed (hooked lastRetraction.recoverExcluded at the closing step)")
    assumptions = C01.assumptions
    classes = [(3, "e-only", mk(arcs=True)), (2, "e-only-inch", mk(inch=True)), (2, "e-only-rel-xyz", mk(rel=True)),
               (2, "firmware", mk(fw=True, inch=True)), (2, "g92e-while-retracted", mk(g92e_retracted=True, g92e_entry=True, p_inside=0.5)),
               (1, "at", mk(at=True)), (1, "addregion", mk(addregion=True)),
               (2, "spelled", mk(arcs=True, rel=True, spell=True, p_inside=0.5)),
               (1.5, "arcs-under-g91", mk(rel=True, arcs=True, arcs_rel=True, p_arc=0.1, start_rel=0.5)),
               (1.5, "regions-added-and-deleted", mk(addregion=True, delregion=True, p_inside=0.6, boost_add=0.1))]

    def oracle(self, tr, stats, case):
        return oracle_c04(tr, stats)

    def nontrivial(self, tr, case):
        for e in tr.episodes:
            if e["close"] is not None:
                hs = tr.steps[e["close"]].get("hs")
                if hs and hs["lr"] is not None and hs["lr"][2]:
                    return True
        return False

    def thresholds(self, tier):
        return {"c04_e_compared": 2000, "c04_forwarded_extrusions": 300, "c04_suppressed_moves": 200}


class C05(ExtrusionMonitor):
    prop = "C05"

    def settings_for(self, rnd, feats):
        s = MotionMonitor.settings_for(self, rnd, feats)
        s["g90e"] = bool(feats.get("g90e"))     # relative extrusion (G91 with the setting on) is within C05's quantifier
        return s
    quick_cases = 3000
    exhaustive = (5, 7)
    rule = ("as C04 with long alternations of enter/retract/recover/exit; oracle compares the physical retraction depth (high-water "
            "mark minus position) of A and B and G10/G11 parity/parameters; non-trivial = a retraction executed inside an episode "
            "and an owed recovery injected outside (a forwarded command preceded by generated commands)")
    assumptions = C01.assumptions
    classes = [(4, "e-only", mk(p_inside=0.5)), (2, "e-only-inch-rel", mk(inch=True, rel=True)),
               (3, "firmware", mk(fw=True)), (1, "firmware-rel", mk(fw=True, rel=True, inch=True)),
               (2, "e-only-g92e", mk(g92e_retracted=True, g92e_entry=True, p_inside=0.5)), (1, "e-only-at", mk(at=True)),
               (2, "relative-extrusion", mk(rel=True, g90e=True, p_inside=0.5, g92e_retracted=True)),
               (1, "relative-extrusion-firmware", mk(rel=True, g90e=True, fw=True, p_inside=0.5)),
               (1.5, "relative-extrusion-inch", mk(rel=True, inch=True, g90e=True, p_inside=0.5, g92e_retracted=True)),
               (2, "relative-extrusion-windows", mk(rel=True, g90e=True, p_inside=0.55, p_relswitch=0.1, g92e=False)),
               (1, "e-only-arcs", mk(arcs=True)), (2, "spelled", mk(spell=True, rel=True, p_inside=0.5)),
               (1, "spelled-firmware", mk(spell=True, fw=True, p_inside=0.5)),
               (2, "e-word-on-every-line", mk(p_esame=0.7, p_inside=0.5, g92e_retracted=True)),
               (2, "e-word-on-every-line-free-values", mk(p_esame=0.7, p_inside=0.6, egrid=False)),
               (1.5, "regions-added-and-deleted", mk(addregion=True, delregion=True, p_inside=0.6, boost_add=0.1)),
               (1, "regions-added-and-deleted-firmware", mk(addregion=True, delregion=True, fw=True, p_inside=0.6, boost_add=0.1))]

    def gen_case(self, rnd, tier, k):
        if self.ex_index(k, tier) is None and rnd.random() < 0.06:
            return self.scenario_owed_recovery(rnd)
        return ExtrusionMonitor.gen_case(self, rnd, tier, k)

    @staticmethod
    def scenario_owed_recovery(rnd):
        """A retraction performed by the filter inside a region, the matching recovery swallowed in a later episode, and in between
        travel moves that carry the file's current E value (slicers that write every word on every line); arbitrary E values."""
        x1, y1 = rnd.randint(15, 30), rnd.randint(15, 30)
        reg = ["rect", float(x1), float(y1), float(x1 + rnd.randint(6, 15)), float(y1 + rnd.randint(6, 15)), "r0"]
        inside = lambda: (fmt(rnd.uniform(reg[1] + 1, reg[3] - 1), 2), fmt(rnd.uniform(reg[2] + 1, reg[4] - 1), 2))   # noqa: E731
        outside = lambda: (fmt(rnd.uniform(1, 12), 2), fmt(rnd.uniform(1, 55), 2))                                    # noqa: E731
        ret = rnd.choice([3.048, 0.8, 1.0, 2.5, 6.5, 0.35])
        e1 = round(rnd.uniform(0.5, 400), rnd.choice([2, 3, 4, 5]))
        if rnd.random() < 0.6:
            # shortly after a "G92 E0": the retracted coordinate is small compared with the retraction length (and may be negative)
            e1 = round(ret + rnd.uniform(-0.9 * ret, 1.5), rnd.choice([2, 3, 4, 5]))
        nd = 5
        w = lambda v: fmt(v, nd)       # noqa: E731
        eret = float(w(e1 - ret))
        steps = [["g", "G28"], ["g", "G1 X%s Y%s Z0.2 F1200" % outside()], ["g", "G1 X%s Y%s E%s" % (outside() + (w(e1),))]]
        g = lambda c: steps.append(["g", c])    # noqa: E731
        rep = lambda: (" E" + w(eret)) if rnd.random() < 0.8 else ""      # noqa: E731
        g("G0 X%s Y%s F6000" % inside())
        g("G1 E%s F2400" % w(eret))
        early = rnd.random() < 0.3        # an E word on the moves inside / on the way out re-bases the tracked value exactly
        for _ in range(rnd.randint(0, 2)):
            g("G0 X%s Y%s%s" % (inside() + (rep() if early else "",)))
        g("G0 X%s Y%s%s" % (outside() + (rep() if early else "",)))
        for _ in range(rnd.randint(1, 3)):
            g("G0 X%s Y%s%s" % (outside() + (rep(),)))
        g("G0 X%s Y%s%s" % (inside() + (rep(),)))
        g("G1 E%s F2400" % w(e1))
        g("G0 X%s Y%s" % outside())
        e2 = e1
        for _ in range(rnd.randint(1, 3)):
            e2 = float(w(e2 + rnd.uniform(0.2, 2)))
            g("G1 X%s Y%s E%s" % (outside() + (w(e2),)))
        return dict(cls="scenario-owed-recovery", settings=dict(g90e=False, enter=None, exit=None), regions=[reg], steps=steps, tags=[])

    def oracle(self, tr, stats, case):
        return oracle_c05(tr, stats, bool(case.get("fw")))

    def nontrivial(self, tr, case):
        retract_inside = False
        for r in tr.steps:
            if r["open_after"] and r["kind"] == "g" and (r["A_after"]["fil"] < r["A_before"]["fil"] - 1e-9 or
                                                          any(f[0] == "G10" for f in r.get("a_fw", []))):
                retract_inside = True
            if retract_inside and not r["open_after"] and not r["closed"] and r["kind"] == "g" and len(r["out"]) > 1 \
                    and r["out"][-1] == r["cmd"]:
                return True
        return False

    def thresholds(self, tier):
        return {"c05_extruding_moves": 500, "set:states": 6, "set:transitions": 30}


def at_table(rnd):
    k = rnd.random()
    if k < 0.5:
        return [list(a) for a in DEFAULT_AT], None
    if k < 0.75:
        return ([["Excl", r"^\s*resume", "enable_exclusion"], ["Excl", r"^\s*stop", "disable_exclusion"],
                 ["ExcludeRegion", r"^\s*(enable|on)(\s|$)", "enable_exclusion"]],
                {"enable_exclusion": ["resume", "  resume now", "on"], "disable_exclusion": ["stop", "stopped"]})
    if k < 0.8:
        # unanchored patterns: match() must anchor at the start of the parameters, a keyword further right is no match
        return ([["Exclude", "on", "enable_exclusion"], ["Exclude", "off", "disable_exclusion"]],
                {"enable_exclusion": ["on", "only now", "note: second one", "reason: on", "x on"],
                 "disable_exclusion": ["off", "offline", "note: cutoff reached", "turn off", "x off"]})
    if k < 0.88:
        # patterns that accept the empty string (what the settings UI stores for a blank field), commands sent without parameters
        return ([["Stop", "", "disable_exclusion"], ["Go", ".*", "enable_exclusion"], ["Halt", r"^\s*$", "disable_exclusion"]],
                {"enable_exclusion": ["", "", "now"], "disable_exclusion": ["", "", "  "]})
    if k < 0.92:
        # the same rule listed twice / two rules of one action matching the same command: every matching entry is applied in turn
        return ([["ExcludeRegion", r"^\s*(disable|off)(\s|$)", "disable_exclusion"], ["ExcludeRegion", r"^\s*off\b", "disable_exclusion"],
                 ["ExcludeRegion", r"^\s*(disable|off)(\s|$)", "disable_exclusion"],
                 ["ExcludeRegion", r"^\s*(enable|on)(\s|$)", "enable_exclusion"], ["ExcludeRegion", r"^\s*on", "enable_exclusion"]],
                {"enable_exclusion": ["on", "on", "enable", "only"], "disable_exclusion": ["off", "off", "disable", "off now"]})
    if k < 0.95:
        # two spellings of one command name are two commands; in the stored (case-insensitively sorted) list their entries interleave
        return ([["ExcludeRegion", r"^\s*off", "disable_exclusion"], ["EXCLUDEREGION", r"^\s*off", "disable_exclusion"],
                 ["ExcludeRegion", r"^\s*on", "enable_exclusion"], ["EXCLUDEREGION", r"^\s*on", "enable_exclusion"],
                 ["excluderegion", None, "disable_exclusion"]],
                {"enable_exclusion": ["on"], "disable_exclusion": ["off"]})
    return ([["NoExcl", None, "disable_exclusion"], ["DoExcl", None, "enable_exclusion"],
             ["Both", "^a", "disable_exclusion"], ["Both", "^ab", "enable_exclusion"]],
            {"enable_exclusion": ["", "x", "ab"], "disable_exclusion": ["", "y", "a", "ac"]})


class C14(MotionMonitor):
    prop = "C14"
    quick_cases = 3000
    rule = ("programs with enable/disable/other @-commands at arbitrary points, default and custom action tables, sometimes a "
            "comm object that is streaming to SD; non-trivial = disable ... moves ... enable followed by a single-axis or relative move")
    assumptions = C01.assumptions
    classes = [(3, "default-table", mk(at=True, rel=True, arcs=True)), (2, "inch", mk(at=True, inch=True, rel=True)),
               (2, "firmware", mk(at=True, fw=True)), (1, "addregion", mk(at=True, addregion=True)),
               (1.5, "arcs-under-g91", mk(at=True, rel=True, arcs=True, arcs_rel=True)),
               (1, "spelled", mk(at=True, rel=True, arcs=True, spell=True)),
               (1, "retract-with-move-or-hop", mk(at=True, retmove=True, p_retmove=0.1, p_inside=0.5, p_at=0.12)),
               (1, "g90-influences-extruder", mk(at=True, rel=True, g90e=True, p_inside=0.5, p_at=0.1)),
               (0.7, "arcs-under-g91-inch", mk(at=True, rel=True, inch=True, arcs=True, arcs_rel=True, p_arc=0.1))]

    exhaustive_what = ("every event sequence over {retract, recover, print inside/outside, travel inside/outside, disable @-command, "
                       "enable @-command} with matched cycles up to length 4 (quick) / 6 (thorough), E-only and firmware retraction")

    def gen_case(self, rnd, tier, k):
        e = self.ex_index(k, tier)
        if e is not None:
            maxlen = 4 if tier == "quick" else 6
            case = exhaustive_case(e // 2, maxlen, firmware=bool(e % 2), variant=1, with_at=True)
            if case is not None:
                case["exhaustive_of"] = 2 * exhaustive_total(maxlen, True)
                return case
        if rnd.random() < 0.06:
            return self.gen_plugin_case(rnd)
        if rnd.random() < 0.08:
            return self.gen_plugin_table_case(rnd)
        name, feats = self.pick_class(rnd)
        settings = self.settings_for(rnd, feats)
        settings["g90e"] = bool(feats.get("g90e"))
        table, params = at_table(rnd)
        settings["at"] = table
        if params:
            feats["at_params"] = params
        if feats.get("fw"):
            feats["fwparam"] = ""
        regs, g = gen_program(rnd, feats, settings)
        steps = g.steps
        case = dict(cls=name, settings=settings, regions=regs, steps=steps, tags=sorted(g.tags))
        if feats.get("fw"):
            case["fw"] = True
            case["fwparam"] = ""
        if rnd.random() < 0.08:
            case["streaming"] = True
        return case

    def check_case(self, case):
        if not case.get("plugin"):
            return MotionMonitor.check_case(self, case)
        # plugin layer: same oracles, real ExcludeRegionPlugin, settings saved through the real settings object
        from ..harness import Plugin, region_payload
        from ..e2e import Engine
        stats = collections.Counter()
        sets = collections.defaultdict(set)
        p = Plugin(case["settings"])
        for r in case["regions"]:
            p.api("addExcludeRegion", region_payload(r))
        p.add_region = lambda r: p.api("addExcludeRegion", region_payload(r))
        eng = Engine(case, driver=p)
        eng.active = False
        tr = eng.run()
        common_stats(tr, stats, sets)
        stats["class:" + str(case.get("cls"))] += 1
        v = self.oracle(tr, stats, case)
        if tr.exc is not None:
            v.append(dict(kind="exception", idx=tr.exc[0], cmd=tr.exc[1], detail=tr.exc[2], mechanism=None))
        return dict(violations=v, nontrivial=self.nontrivial(tr, case) and not v, stats=stats, sets=sets, sample=sample_of(case, tr))

    def gen_plugin_table_case(self, rnd):
        """One print through the real plugin with an action table stored in the settings (any of the table shapes above)."""
        table, params = at_table(rnd)
        st = dict(g90e=False, at=table, clear=False, shrink=False, enter=None, exit=None)
        feats = mk(at=True, rel=rnd.random() < 0.3, p_inside=0.5, beds=False, p_at=0.25)
        if params:
            feats["at_params"] = params
        regs, g = gen_program(rnd, feats, st, nsteps=rnd.randint(10, 40))
        steps = [["event", "PrintStarted"]]
        paused = False
        prog = list(g.steps)
        if rnd.random() < 0.25:
            # the job is abandoned where it stands (exclusion possibly switched off, possibly inside a region) and started again
            # from the top without any end event in between: the second run owes nothing to the first
            _, g2 = gen_program(rnd, dict(feats), st, nsteps=rnd.randint(8, 30), regions=regs)
            prog += [["event", "PrintStarted"], ["g", "G21"], ["g", "G90"]] + list(g2.steps[:1]) + [["g", "G92 E0"]] + list(g2.steps[1:])
        for x in prog:
            if x[0] == "event":
                steps.append(x)
                paused = False
                continue
            if x[0] not in ("g", "at"):
                continue
            # the job is paused and resumed now and then (pause / resume do not end it); @-commands sent in between count
            if x[0] == "at" and not paused and rnd.random() < 0.3:
                steps.append(["event", "PrintPaused"])
                paused = True
            steps.append(x)
            if paused and rnd.random() < 0.4:
                steps.append(["event", "PrintResumed"])
                paused = False
        return dict(cls="plugin-stored-table", plugin=True, settings=st, regions=regs, steps=steps)

    def gen_plugin_case(self, rnd):
        """One print during which a settings save swaps the actions of the configured @-commands (same commands and patterns)."""
        table = [["Excl", r"^\s*a(\s|$)", "disable_exclusion"], ["Excl", r"^\s*b(\s|$)", "enable_exclusion"]]
        flipped = [[table[0][0], table[0][1], "enable_exclusion"], [table[1][0], table[1][1], "disable_exclusion"]]
        s1 = dict(g90e=False, at=table, clear=False, shrink=False, enter=None, exit=None)
        s2 = dict(s1, at=flipped)
        regs = gen_regions(rnd, rnd.choice([1, 2, 3]))
        steps = [["event", "PrintStarted"]]
        for k, st in enumerate((s1, s2, s1)[:rnd.choice([2, 3])]):
            feats = mk(at=True, rel=rnd.random() < 0.3, p_inside=0.5, beds=False,
                       at_params={"enable_exclusion": ["b" if st is s1 else "a"], "disable_exclusion": ["a" if st is s1 else "b"]})
            _, g = gen_program(rnd, feats, st, nsteps=rnd.randint(8, 30), regions=regs)
            prog = [x for x in g.steps if x[0] in ("g", "at")]
            if k:
                steps.append(["settings", dict(st)])
                prog = [x for x in prog if not (x[0] == "g" and x[1].upper().startswith("G28"))]
                prog = [["g", "G90"], ["g", "G21"]] + prog
            steps += prog
        return dict(cls="plugin-settings-flip", plugin=True, settings=s1, regions=regs, steps=steps)

    def oracle(self, tr, stats, case):
        v = oracle_c14(tr, stats)
        if case.get("plugin"):
            return v + oracle_c01(tr, stats)
        if not case.get("streaming"):
            # after re-enabling, the C01 monitors keep running; a disable closes an episode "with the same re-synchronisation
            # obligations as leaving a region", which includes the extruder coordinate and an owed recovery (C04/C05 oracles;
            # all programs here have matched retract cycles and absolute extrusion)
            v += oracle_c01(tr, stats)
            if case.get("cls") == "retract-with-move-or-hop":
                return v          # C04's and C05's quantifiers are E-only or firmware cycles: retract-on-move is outside them
            if not (case.get("settings") or {}).get("g90e"):
                v += oracle_c04(tr, stats)       # (C04's quantifier: absolute extrusion)
            v += oracle_c05(tr, stats, bool(case.get("fw")))
        return v

    def nontrivial(self, tr, case):
        stage = 0
        for r in tr.steps:
            if r["kind"] == "at" and r.get("expect_handled"):
                if not r["enabled_after"] and stage == 0:
                    stage = 1
                elif r["enabled_after"] and stage == 2:
                    stage = 3
            elif r["kind"] == "g" and r.get("is_move"):
                if stage == 1:
                    stage = 2
                elif stage == 3:
                    letters = set(l for l, v in r["words"] if v is not None)
                    if len(letters & set("XY")) == 1 or not r["B_before"]["abs_xyz"]:
                        return True
        return False

    def thresholds(self, tier):
        return {"c14_at_commands": 300, "c14_moves_while_disabled": 200, "c14_disable_inside_episode": 20,
                "c14_unmatched_or_streaming": 50}

    def witnesses(self):
        return []
