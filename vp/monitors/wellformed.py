"""C07: commands synthesised by the filter are well-formed plain-decimal G-code carrying the intended values."""
import collections
import math
import re

from .base import viol, common_stats, sample_of
from .motion import MotionMonitor, mk
from ..e2e import run_case
from ..refprinter import tokenize, last_values, Printer
from ..harness import DEFAULT_EXT

RESYNC = re.compile(r"^(G92 E\S+|G0 F\S+( [XYZ]\S+)+|G90|G91)$")
GRAMMAR = re.compile(r"^[GM]\d+(\.\d+)?( [A-Z]([-+]?(\d+\.?\d*|\.\d+))?)*$")
REL = 1e-9


def close(a, b, rel=REL):
    return abs(a - b) <= rel * max(1.0, abs(a), abs(b))


def wellformed(cmd):
    """Grammar, distinct letters, finite values; returns a failure string or None."""
    if not GRAMMAR.match(cmd):
        return "does not match the plain-decimal command grammar"
    code, sub, words = tokenize(cmd)
    letters = [l for l, _ in words]
    if len(set(letters)) != len(letters):
        return "parameter letter repeated"
    for l, v in words:
        if v is not None and not math.isfinite(v):
            return "non-finite value"
    return None


class C07(MotionMonitor):
    prop = "C07"
    plugin_share = 0.0      # the shape of generated commands is judged at the handlers; the plugin layer adds nothing to it
    quick_cases = 2500
    rule = ("value-hostile programs (relative round-off chains, tiny extrusions, inch conversion, coordinates up to 1e12, feed rates "
            "1e-5..1e19, merged deferred commands with tiny/huge/valueless parameters); every command the filter generated (not the "
            "input command, not a configured script line, not a deferred first/last copy) must match the grammar with distinct "
            "letters and finite values, and its numbers, read by a firmware-style reader, must equal the intended values (exit "
            "sequence: the filter's own tracked logical coordinates, exactly; merged: latest value per letter, exactly; "
            "retraction/recovery pairs: the file-view values on printer B within 1e-9); non-trivial = a generated command holding a "
            "value < 1e-4 or >= 1e16 in magnitude (non-zero)")
    assumptions = ["inputs are plain decimal with <= 20 significant digits", "script lines are recognised by equality with the configured lines"]
    classes = [(3, "hostile-values", mk(hv=True, rel=True, inch=True, arcs=True, spell=True)),
               (3, "hostile-values-free-e", mk(hv=True, rel=True, inch=True, egrid=False, g92e_retracted=True, p_inside=0.5)),
               (2, "hostile-values-firmware", mk(hv=True, fw=True, rel=True, inch=True)),
               (1.5, "firmware-mixed-parameters", mk(fw=True, fwparam_mix=True, p_inside=0.55)),
               (2, "plain", mk(rel=True, inch=True, arcs=True, at=True, retmove=True)),
               (1, "plain-g92e-retracted", mk(g92e_retracted=True, inch=True)),
               (1.5, "relative-extrusion", mk(rel=True, inch=True, g90e=True, g92e_retracted=True, p_inside=0.5)),
               (2, "relative-extrusion-inch-from-the-start", mk(rel=True, inch=True, g90e=True, p_inside=0.55, start_rel=0.8, start_inch=0.8,
                                                                g92e=False))]

    def settings_for(self, rnd, feats):
        s = MotionMonitor.settings_for(self, rnd, feats)
        s["g90e"] = bool(feats.get("g90e"))
        ext = dict(DEFAULT_EXT)
        if rnd.random() < 0.5:
            ext.update({"M900": "merge", "M220": rnd.choice(["merge", "last", "first"])})
        s["ext"] = ext
        return s

    def thresholds(self, tier):
        return {"c07_generated_commands": 3000, "c07_exit_values_exact": 1000, "c07_pair_values": 300, "c07_merged_values": 100}

    def check_case(self, case):
        stats = collections.Counter()
        sets = collections.defaultdict(set)
        tr = run_case(case)
        common_stats(tr, stats, sets)
        stats["class:" + str(case.get("cls"))] += 1
        v = []
        hostile = [False]
        settings = case.get("settings") or {}
        scripts = set(settings.get("enter") or []) | set(settings.get("exit") or [])
        ext = settings.get("ext") if settings.get("ext") is not None else DEFAULT_EXT
        seen_inputs = set()
        pending = collections.OrderedDict()      # merge model: code -> OrderedDict(letter -> value) (latest per letter)
        tr.case["_has_retract_on_move"] = any(r["kind"] == "g" and r.get("is_move") and
                                               r["B_after"]["fil"] < r["B_before"]["fil"] - 1e-12 for r in tr.steps)
        tr.fw_seen = []         # firmware retract / recover commands the printer has executed before the current step
        prev_fw = []
        tr.feeds_seen = set([0.0])   # every feed rate (mm/min) the file has set so far
        for r in tr.steps:
            tr.fw_seen.extend(prev_fw)
            prev_fw = list(r.get("a_fw") or [])
            if r.get("B_after"):
                tr.feeds_seen.add(r["B_after"]["feed"])
            if r["kind"] == "g":
                seen_inputs.add(r["cmd"])
            if r["kind"] not in ("g", "at"):
                continue
            cmds = r["out"] if r["kind"] == "g" else r["sent"]
            gen = []
            for c in cmds:
                if r["kind"] == "g" and c == r["cmd"]:
                    continue
                if c in scripts:
                    continue
                code = tokenize(c)[0]
                if c in seen_inputs and ext.get(code) in ("first", "last"):
                    continue
                gen.append(c)
            # merge model (independent reader)
            if r["kind"] == "g" and r["open_before"] and not r["closed"] and ext.get(r.get("code")) == "merge" and not r["out"]:
                d = pending.pop(r["code"], collections.OrderedDict())
                pending[r["code"]] = d
                for l, val in r["words"]:
                    d[l] = val
            for c in gen:
                stats["c07_generated_commands"] += 1
                why = wellformed(c)
                if why:
                    v.append(viol(tr, r, "malformed-generated-command", "%r: %s" % (c, why)))
                    continue
                for l, val in tokenize(c)[2]:
                    if val is not None and val != 0 and (abs(val) < 1e-4 or abs(val) >= 1e16):
                        hostile[0] = True
            if not gen:
                if r["closed"]:
                    pending.clear()
                continue
            v += self.intended(tr, r, gen, ext, pending, stats)
            if r["closed"]:
                pending.clear()
        if tr.exc is not None:
            v.append(dict(kind="exception", idx=tr.exc[0], cmd=tr.exc[1], detail=tr.exc[2], mechanism=tr.mechanism_at(tr.exc[0])))
        return dict(violations=v, nontrivial=hostile[0] and not v, stats=stats, sets=sets, sample=sample_of(case, tr))

    def intended(self, tr, r, gen, ext, pending, stats):
        out = []
        hs = r.get("hs")
        unitB = r["B_after"]["unit"]
        if r["closed"]:
            # [deferred..., exit script..., G92 E, (G90), G0 Z?, G0 X Y, G0 Z?, (G91)]
            idx = len(gen)
            while idx > 0 and RESYNC.match(gen[idx - 1]):
                idx -= 1
            head, tail = gen[:idx], gen[idx:]
            for c in head:
                code, _, words = tokenize(c)
                if ext.get(code) == "merge":
                    stats["c07_merged_values"] += 1
                    want = pending.get(code)
                    got = collections.OrderedDict(words)
                    if want is None or dict(got) != dict(want):
                        out.append(viol(tr, r, "merged-command-values-differ", "%r carries %r, latest value per letter is %r"
                                        % (c, list(got.items()), None if want is None else list(want.items()))))
            if hs is None:
                return out
            # tracked logical coordinates, computed from the hooked state exactly like the firmware would read them back
            def logical(k):
                return (hs["xyz"[k]] - (hs["offset"][k] + hs["home"][k])) / hs["unit"][k]
            elog = (hs["e"] - hs["offset"][3]) / hs["unit"][3]
            feed = hs["feed"] / hs["feedunit"]
            for c in tail:
                code, _, words = tokenize(c)
                vals = last_values(words)
                if code == "G92":
                    stats["c07_exit_values_exact"] += 1
                    if vals.get("E") != elog:
                        out.append(viol(tr, r, "exit-value-not-exact", "%r: E reads %r, tracked logical E is %r" % (c, vals.get("E"), elog)))
                elif code == "G0":
                    for l, val in vals.items():
                        stats["c07_exit_values_exact"] += 1
                        want = feed if l == "F" else logical("XYZ".index(l)) if l in "XYZ" else None
                        if want is None or val != want:
                            out.append(viol(tr, r, "exit-value-not-exact", "%r: %s reads %r, tracked value is %r" % (c, l, val, want)))
                        elif l == "F" and not close(val * unitB, r["B_after"]["feed"]):
                            out.append(viol(tr, r, "exit-feed-rate-differs", "%r: F reads %r (unit %r), the file's modal feed rate is %r mm/min"
                                            % (c, val, unitB, r["B_after"]["feed"])))
                elif code in ("G90", "G91"):
                    pass
            return out
        # ---- not a closing step: retraction pair, owed recovery pair, single G92 E, firmware retract/recover
        codes = [tokenize(c)[0] for c in gen]
        if codes == ["G92", "G1"]:
            stats["c07_pair_values"] += 1
            e92 = last_values(tokenize(gen[0])[2]).get("E")
            w1 = last_values(tokenize(gen[1])[2])
            e1 = w1.get("E")
            if e92 is None or e1 is None or "F" not in w1:
                out.append(viol(tr, r, "retraction-pair-incomplete", "%r" % (gen,)))
                return out
            unit = r["B_before"]["unit"]
            # the feed rate of the generated command, read in the unit in force, is a feed rate the file has asked for at some point
            # (that of the retraction being replayed or undone, or the current one)
            fgen = w1["F"] * unit
            stats["c07_pair_feed_rates_compared"] += 1
            feeds = set(tr.feeds_seen) | set([r["B_after"]["feed"]])
            if not any(abs(fgen - f) <= 1e-6 * max(1.0, abs(f)) for f in feeds):
                out.append(viol(tr, r, "pair-feed-rate", "%r: F%r in units of %r mm is %r mm/min; the file has only ever set %r"
                                % (gen, w1["F"], unit, fgen, sorted(feeds)[:8])))
                return out
            if not r["B_before"]["abs_e"]:
                # relative extrusion: the G1 word is an offset; together with the G92 before it the coordinate must end where
                # the file's coordinate is (retraction: after the command, recovery: before the command)
                stats["c07_pair_values_relative"] += 1
                end = r["B_after"]["e"] if r["open_after"] else r["B_before"]["e"]
                if not close((e92 + e1) * unit, end) or (r["open_after"] and e1 >= 0) or (not r["open_after"] and e1 <= 0):
                    out.append(viol(tr, r, "relative-pair-values", "%r: G92 value plus offset must end at the file's E %r mm (unit %r), "
                                    "retraction negative / recovery positive" % (gen, end, unit)))
                return out
            if r["open_after"]:
                # retraction executed inside a region: from the file's E before the command to the file's E after it
                if not close(e1 * unit, r["B_after"]["e"]) or not close(e92 * unit, r["B_before"]["e"]):
                    out.append(viol(tr, r, "retraction-pair-values", "%r: file E goes %r -> %r (mm), unit %r"
                                    % (gen, r["B_before"]["e"], r["B_after"]["e"], unit)))
            else:
                # owed recovery injected before a forwarded command: ends at the file's E before the command,
                # and advances by the retraction physically outstanding on the printer
                gap = (e1 - e92) * unit - r["A_before"]["depth"]
                tol = max(1e-7, 1e-9 * max(1.0, abs(e1 * unit), r["A_before"]["hi"]))
                # with retractions combined with moves (not tracked as retractions outside a region, by design) more filament
                # may be outstanding than the retraction being recovered: then only "not more than outstanding" is demanded
                wrong = gap > tol if tr.case.get("_has_retract_on_move") else abs(gap) > tol
                if not close(e1 * unit, r["B_before"]["e"]) or wrong or e1 <= e92:
                    out.append(viol(tr, r, "recovery-pair-values", "%r: file E before the command %r mm, outstanding retraction %r mm, unit %r"
                                    % (gen, r["B_before"]["e"], r["A_before"]["depth"], unit)))
        elif codes == ["G92"]:
            stats["c07_pair_values"] += 1
            e92 = last_values(tokenize(gen[0])[2]).get("E")
            if e92 is None or not close(e92 * unitB, r["B_after"]["e"]):
                out.append(viol(tr, r, "resync-g92-value", "%r: file E after the command is %r mm" % (gen, r["B_after"]["e"])))
        elif all(c in ("G10", "G11") for c in codes):
            stats["c07_firmware_generated"] += 1
            # intended value of a generated G11: the parameters of the G10 the printer last executed (what is being undone)
            for c in gen:
                if tokenize(c)[0] != "G11":
                    continue
                last_g10 = [f for f in tr.fw_seen if f[0] == "G10" and not f[2]]
                if not last_g10:
                    continue
                stats["c07_generated_g11_parameters_compared"] += 1
                want = "".join(last_g10[-1][1].split()).upper()
                got = "".join(Printer._params(c).split()).upper()
                if got != want:
                    out.append(viol(tr, r, "generated-recover-parameters", "%r generated, the retraction being undone was 'G10 %s'"
                                    % (c, last_g10[-1][1])))
        else:
            stats["c07_generated_shape_not_classified"] += 1     # grammar was checked; no intended value is known for it
        return out
