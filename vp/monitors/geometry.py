"""C17: contracts on the real containsPoint / containsRegion / RectangularRegion.__init__ vs exact rational arithmetic."""
import collections
import math
from fractions import Fraction as F

from .base import Monitor
from ..harness import RectangularRegion, CircularRegion, digest

BAND = F(1, 10 ** 12)


def exact_in_rect(x1, y1, x2, y2, px, py):
    return F(x1) <= F(px) <= F(x2) and F(y1) <= F(py) <= F(y2)


def disc_margin(cx, cy, r, px, py):
    """(r^2 - d^2) and a scale, exact.  >= 0 means inside the closed disc (for r >= 0)."""
    dx, dy, rr = F(px) - F(cx), F(py) - F(cy), F(r)
    return rr * rr - (dx * dx + dy * dy), max(rr * rr, dx * dx + dy * dy, F(1, 10 ** 300))


def exact_in_disc(cx, cy, r, px, py):
    """True / False / None (inside the 1e-12 relative band where float rounding may decide)."""
    if r < 0:
        return False
    m, scale = disc_margin(cx, cy, r, px, py)
    if abs(m) <= BAND * scale:
        return None if m != 0 else True
    return m > 0


def gen_num(rnd, mode):
    if mode == 0:
        return float(rnd.randint(-50, 50))
    if mode == 1:
        return rnd.randint(-200, 200) / 4.0
    if mode == 2:
        return round(rnd.uniform(-100, 100), rnd.choice([1, 2, 3]))
    return rnd.uniform(-100, 100) * rnd.choice([1e-3, 1, 1, 1e3])


def gen_rect(rnd, mode):
    x1, y1 = gen_num(rnd, mode), gen_num(rnd, mode)
    k = rnd.random()
    if k < 0.1:
        return [x1, y1, x1, gen_num(rnd, mode)]       # degenerate
    if k < 0.15:
        return [x1, y1, x1, y1]
    return [x1, y1, gen_num(rnd, mode), gen_num(rnd, mode)]


def gen_circ(rnd, mode):
    r = abs(gen_num(rnd, mode)) * rnd.choice([0.1, 0.5, 1])
    k = rnd.random()
    if k < 0.07:
        r = 0.0
    elif k < 0.12:
        r = -r
    return [gen_num(rnd, mode), gen_num(rnd, mode), r]


def related(rnd, shape, mode):
    """A second region related to `shape` (contained, touching, nearly touching, slightly larger ...)."""
    kind, p = shape
    d = rnd.choice([0.0, 0.0, 1e-9, -1e-9, 1e-3, -1e-3, 1.0, -1.0, 2.0 ** -40, -(2.0 ** -40)])
    if kind == "rect":
        x1, y1, x2, y2 = min(p[0], p[2]), min(p[1], p[3]), max(p[0], p[2]), max(p[1], p[3])
        if rnd.random() < 0.5:
            q = [x1 + rnd.choice([0, d, abs(d)]), y1 + rnd.choice([0, d]), x2 - rnd.choice([0, d, abs(d)]), y2 - rnd.choice([0, d])]
            if rnd.random() < 0.4:
                w, h = x2 - x1, y2 - y1
                q = [x1 + w * rnd.uniform(0, 0.5), y1 + h * rnd.uniform(0, 0.5), x2 - w * rnd.uniform(0, 0.5) * rnd.choice([0, 1]),
                     y2 - h * rnd.uniform(0, 0.5) * rnd.choice([0, 1])]
            return ("rect", q)
        # inscribed / touching circle
        r = min(x2 - x1, y2 - y1) / 2.0
        cx, cy = (x1 + x2) / 2.0, (y1 + y2) / 2.0
        if rnd.random() < 0.5:
            cx, cy = x1 + r, y1 + r
        return ("circ", [cx, cy, max(0.0, r - rnd.choice([0, d, abs(d), r / 2]))])
    cx, cy, r = p
    r = abs(r)
    if rnd.random() < 0.5:
        # inner circle, possibly internally tangent
        r2 = r * rnd.uniform(0.05, 1.0)
        a = rnd.uniform(0, 2 * math.pi)
        dist = (r - r2) * rnd.choice([0, 0.5, 1, 1]) + rnd.choice([0, d, r * 3e-10, r * 8e-10, -r * 3e-10])
        if rnd.random() < 0.3:
            a = rnd.choice([0, math.pi / 2, math.pi, 3 * math.pi / 2])
        return ("circ", [cx + dist * math.cos(a), cy + dist * math.sin(a), r2])
    if rnd.random() < 0.35:
        # rectangle spanned by two arbitrary points of the disc: its other two corners may well be outside
        pts = []
        for _ in range(2):
            a, q = rnd.uniform(0, 2 * math.pi), r * math.sqrt(rnd.random()) * rnd.choice([1, 1, 0.999])
            pts.append((cx + q * math.cos(a), cy + q * math.sin(a)))
        return ("rect", [pts[0][0], pts[0][1], pts[1][0], pts[1][1]])
    # inscribed rectangle (corners on the circle for Pythagorean ratios)
    f = rnd.choice([(0.6, 0.8), (0.8, 0.6), (5 / 13.0, 12 / 13.0), (math.sqrt(0.5), math.sqrt(0.5)), (0.5, 0.5), (0.3, 0.2)])
    s = rnd.choice([1.0, 1.0, 1 - 1e-9, 1 + 1e-9, 0.5, 1 + abs(d)])
    return ("rect", [cx - r * f[0] * s, cy - r * f[1] * s, cx + r * f[0] * s, cy + r * f[1] * s])


def mk(shape, rid="x"):
    kind, p = shape
    if kind == "rect":
        return RectangularRegion(x1=p[0], y1=p[1], x2=p[2], y2=p[3], id=rid)
    return CircularRegion(cx=p[0], cy=p[1], r=p[2], id=rid)


def probe_points(rnd, shape):
    """Points relevant to a shape: corners/extremes, boundary, interior, just outside."""
    kind, p = shape
    pts = []
    if kind == "rect":
        x1, y1, x2, y2 = min(p[0], p[2]), min(p[1], p[3]), max(p[0], p[2]), max(p[1], p[3])
        xs = [x1, x2, (x1 + x2) / 2.0, math.nextafter(x1, -math.inf), math.nextafter(x2, math.inf),
              math.nextafter(x1, math.inf), math.nextafter(x2, -math.inf)]
        ys = [y1, y2, (y1 + y2) / 2.0, math.nextafter(y1, -math.inf), math.nextafter(y2, math.inf)]
        pts = [(x, y) for x in xs for y in ys]
    else:
        cx, cy, r = p
        pts = [(cx, cy), (cx + r, cy), (cx - r, cy), (cx, cy + r), (cx, cy - r)]
        for k in range(24):
            a = 2 * math.pi * k / 24 + rnd.uniform(0, 0.2)
            for s in (1.0, 0.5, 1 + 1e-9, 1 - 1e-9, 1.01):
                pts.append((cx + s * r * math.cos(a), cy + s * r * math.sin(a)))
        for (a, b, c) in ((3, 4, 5), (5, 12, 13), (8, 15, 17), (20, 21, 29)):
            if r > 0:
                pts.append((cx + r * a / c, cy + r * b / c))
    return pts


class C17(Monitor):
    prop = "C17"
    quick_cases = 2000
    rule = ("random rectangle/circle parameters (integers, quarter grid, short decimals, free floats; degenerate, negative radius), "
            "second region derived from the first (contained, tangent, shifted by 0, +-2^-40, +-1e-9, +-1e-3, +-1); real containsPoint "
            "vs exact Fraction arithmetic on probe points (corners, extremes, next-after neighbours, boundary, exact Pythagorean "
            "boundary points on dyadic discs); four corner orderings; real containsRegion == True checked for soundness on probe "
            "points of the inner region; one case = one pair of regions; non-trivial = pair with reported containment; distinct by digest")
    assumptions = ["disc decisions within 1e-12 relative of the border are not judged (float rounding); exact-boundary points on "
                   "dyadic Pythagorean discs must be inside", "containment is checked for soundness only (no completeness claim)"]


    SMALL = None
    exhaustive_what = ("small scope: every unordered pair of shapes among all rectangles with corners in {0..3}^2 (any corner order) "
                       "and all discs with centre in {0..3}^2 and radius in {0, 0.5, .., 3}: membership on probe points, corner "
                       "order, containment soundness in both directions")

    @classmethod
    def small_shapes(cls):
        """Small scope: every rectangle with corners in {0..3}^2 (any corner order) and every disc with centre in {0..3}^2 and
        radius in {0, 0.5, ..., 3}."""
        if cls.SMALL is None:
            v = [0.0, 1.0, 2.0, 3.0]
            shapes = [("rect", [a, b, c, d]) for a in v for b in v for c in v for d in v]
            shapes += [("circ", [a, b, r / 2.0]) for a in v for b in v for r in range(0, 7)]
            cls.SMALL = shapes
        return cls.SMALL

    def gen_case(self, rnd, tier, k):
        n = len(self.small_shapes())
        total = n * (n + 1) // 2
        if k % 2 == 0:
            e = (k // 2) * getattr(self, "nshards", 1) + getattr(self, "shard", 0)
            if e < total:
                # unrank the unordered pair (i <= j)
                i = 0
                rem = e
                while rem >= n - i:
                    rem -= n - i
                    i += 1
                a, b = self.small_shapes()[i], self.small_shapes()[i + rem]
                return dict(a=[a[0], list(a[1])], b=[b[0], list(b[1])], seed=e, small=e, small_total=total)
        if rnd.random() < 0.06:
            return self.gen_extreme(rnd)
        mode = rnd.choice([0, 0, 1, 2, 3])
        a = ("rect", gen_rect(rnd, mode)) if rnd.random() < 0.5 else ("circ", gen_circ(rnd, mode))
        if rnd.random() < 0.75:
            b = related(rnd, a, mode)
        else:
            b = ("rect", gen_rect(rnd, mode)) if rnd.random() < 0.5 else ("circ", gen_circ(rnd, mode))
        if rnd.random() < 0.5:
            a, b = b, a
        case = dict(a=[a[0], a[1]], b=[b[0], b[1]], seed=rnd.randint(0, 10 ** 9))
        if rnd.random() < 0.15:
            # exact boundary class: dyadic disc with Pythagorean boundary points
            s = 2.0 ** rnd.randint(-6, 6)
            case["exact"] = dict(cx=rnd.randint(-20, 20) * s, cy=rnd.randint(-20, 20) * s, s=s,
                                 triple=rnd.choice([(3, 4, 5), (5, 12, 13), (8, 15, 17), (7, 24, 25), (20, 21, 29)]))
        return case

    @staticmethod
    def gen_extreme(rnd):
        """Legal but extreme magnitudes (squares overflow above ~1.3e154 and underflow below ~1.5e-162): a bed-sized or an
        astronomic region against an astronomic one that is far away, around it, or tangent to it."""
        m = rnd.choice([1e150, 1.5e154, 1e200, 1e300])
        mode = rnd.choice([0, 1])
        a = ("rect", gen_rect(rnd, mode)) if rnd.random() < 0.5 else ("circ", gen_circ(rnd, mode))
        if rnd.random() < 0.3:
            a = ("circ", [rnd.choice([0.0, m, -m]), 0.0, m * rnd.choice([0.5, 1.0])])
        q = rnd.random()
        ax, ay = a[1][0], a[1][1]
        if q < 0.35:
            b = ("circ", [ax + rnd.choice([3.0, -3.0, 2.0, 1.0]) * m, ay, m])
        elif q < 0.55:
            b = ("circ", [ax, ay, m * rnd.choice([1.0, 2.0])])
        elif q < 0.75:
            b = ("rect", [ax + m, ay - m, ax + 3 * m, ay + m])
        elif q < 0.9:
            b = ("rect", [-m, -m, m, m])
        else:
            t = rnd.choice([1e-170, 1e-200, 5e-324])
            a = ("circ", [0.0, 0.0, t])
            b = ("circ", [t * rnd.choice([1.0, 2.0, 0.0]), 0.0, t])
        if rnd.random() < 0.5:
            a, b = b, a
        return dict(a=[a[0], list(a[1])], b=[b[0], list(b[1])], seed=rnd.randint(0, 10 ** 9), extreme=True)

    def check_case(self, case):
        import random
        rnd = random.Random(case["seed"])
        stats = collections.Counter()
        v = []
        a = (case["a"][0], case["a"][1])
        b = (case["b"][0], case["b"][1])

        def bad(kind, detail):
            v.append(dict(kind=kind, idx=-1, cmd="a=%r b=%r" % (a, b), detail=detail, mechanism=None))
        # half of the pairs share one id: that is exactly the situation of an update request (the replacement carries the id of the
        # region it replaces), and identity of ids says nothing about geometry
        same = bool(case.get("seed", 0) % 2)

        def as_given(shape):
            # a fifth of the pairs arrive the way a JSON client may send them: numbers as text ("9", "110.5") or as ints
            if case.get("seed", 0) % 5 != 3 or "small" in case:
                return shape
            stats["regions_given_as_text_or_int"] += 1
            out = []
            for val in shape[1]:
                q = rnd.random()
                if not math.isfinite(val):
                    out.append(val)
                elif q < 0.5:
                    out.append("%r" % val if rnd.random() < 0.5 else ("%d" % val if val == int(val) else "%r" % val))
                elif q < 0.7 and val == int(val):
                    out.append(int(val))
                else:
                    out.append(val)
            return (shape[0], out)
        try:
            ra, rb = mk(as_given(a), "a"), mk(as_given(b), "a" if same else "b")
        except Exception as exc:  # noqa: B902
            bad("constructor-raised", "region data %r / %r: %r" % (as_given(a), as_given(b), exc))
            return dict(violations=v, nontrivial=False, stats=stats, sets={}, sample=dict(a=a, b=b))
        stats["pairs_same_id" if same else "pairs_distinct_ids"] += 1
        if case.get("extreme"):
            stats["pairs_extreme_magnitude"] += 1
        sets = collections.defaultdict(set)
        if "small" in case:
            sets["exhaustive_indices"].add(case["small"])
            stats["exhaustive_of_%d" % case["small_total"]] += 1
        # ---- class invariant and corner order of rectangles
        for shape, reg in ((a, ra), (b, rb)):
            if shape[0] == "rect":
                stats["rect_constructed"] += 1
                if not (reg.x1 <= reg.x2 and reg.y1 <= reg.y2):
                    bad("rect-corners-not-ordered", "x1=%r x2=%r y1=%r y2=%r" % (reg.x1, reg.x2, reg.y1, reg.y2))
                p = shape[1]
                variants = [RectangularRegion(x1=p[2], y1=p[1], x2=p[0], y2=p[3], id="a"),
                            RectangularRegion(x1=p[0], y1=p[3], x2=p[2], y2=p[1], id="a"),
                            RectangularRegion(x1=p[2], y1=p[3], x2=p[0], y2=p[1], id="a")]
                for alt in variants:
                    if (alt.x1, alt.y1, alt.x2, alt.y2) != (reg.x1, reg.y1, reg.x2, reg.y2):
                        bad("corner-order-changes-rectangle", "%r vs %r" % ((alt.x1, alt.y1, alt.x2, alt.y2),
                                                                            (reg.x1, reg.y1, reg.x2, reg.y2)))
        # ---- membership on probe points of both shapes
        pts = probe_points(rnd, a) + probe_points(rnd, b)
        for shape, reg in ((a, ra), (b, rb)):
            for (px, py) in pts:
                if not (math.isfinite(px) and math.isfinite(py)):
                    continue
                got = bool(reg.containsPoint(px, py))
                stats["membership_evaluations"] += 1
                if shape[0] == "rect":
                    p = shape[1]
                    want = exact_in_rect(min(p[0], p[2]), min(p[1], p[3]), max(p[0], p[2]), max(p[1], p[3]), px, py)
                else:
                    want = exact_in_disc(shape[1][0], shape[1][1], shape[1][2], px, py)
                    if want is None:
                        stats["disc_band_skipped"] += 1
                        continue
                if got != want:
                    bad("membership-differs-from-exact", "%s %r containsPoint(%r, %r) = %r, exact arithmetic says %r"
                        % (shape[0], shape[1], px, py, got, want))
                    break
        # ---- exact boundary class
        ex = case.get("exact")
        if ex:
            t = ex["triple"]
            s = ex["s"]
            disc = CircularRegion(cx=ex["cx"], cy=ex["cy"], r=t[2] * s, id="e")
            for sx in (1, -1):
                for sy in (1, -1):
                    for (u, w) in ((t[0], t[1]), (t[1], t[0]), (t[2], 0), (0, t[2])):
                        px, py = ex["cx"] + sx * u * s, ex["cy"] + sy * w * s
                        stats["exact_boundary_points"] += 1
                        if not disc.containsPoint(px, py):
                            bad("boundary-point-not-in-closed-disc", "disc c=(%r,%r) r=%r, point (%r,%r) lies exactly on the circle"
                                % (ex["cx"], ex["cy"], t[2] * s, px, py))
            rect = RectangularRegion(x1=ex["cx"], y1=ex["cy"], x2=ex["cx"] + t[0] * s, y2=ex["cy"] + t[1] * s, id="e")
            for (px, py) in ((rect.x1, rect.y1), (rect.x2, rect.y2), (rect.x1, rect.y2), (rect.x2, rect.y1),
                             ((rect.x1 + rect.x2) / 2, rect.y1), (rect.x2, (rect.y1 + rect.y2) / 2)):
                stats["exact_boundary_points"] += 1
                if not rect.containsPoint(px, py):
                    bad("boundary-point-not-in-closed-rect", "rect %r point (%r,%r)" % ((rect.x1, rect.y1, rect.x2, rect.y2), px, py))
        # ---- the same regions seen through the registry: add a, replace it by b (same id): points are excluded exactly when b says so
        try:
            from ..harness import ExcludeRegionState, make_logger
            st = ExcludeRegionState(make_logger(False))
            st.addRegion(mk(a, "z"))
            st.replaceRegion(mk(b, "z"), False)
            for (px, py) in pts[:40]:
                if not (math.isfinite(px) and math.isfinite(py)):
                    continue
                if b[0] == "rect":
                    p = b[1]
                    want = exact_in_rect(min(p[0], p[2]), min(p[1], p[3]), max(p[0], p[2]), max(p[1], p[3]), px, py)
                else:
                    want = exact_in_disc(b[1][0], b[1][1], b[1][2], px, py)
                if want is None:
                    continue
                stats["registry_membership_evaluations"] += 1
                if bool(st.isPointExcluded(px, py)) != want:
                    bad("registry-membership-differs", "after add %r / replace by %r the state says (%r, %r) excluded=%r, exact arithmetic %r"
                        % (a, b, px, py, st.isPointExcluded(px, py), want))
                    break
        except Exception as exc:  # noqa: B902
            bad("registry-raised", repr(exc))
        # ---- containment soundness, both directions
        nontrivial = False
        for (os_, oreg, is_, ireg) in ((a, ra, b, rb), (b, rb, a, ra)):
            try:
                rep = bool(oreg.containsRegion(ireg))
            except Exception as exc:  # noqa: B902
                bad("containsRegion-raised", repr(exc))
                continue
            stats["containment_evaluations"] += 1
            if not rep:
                continue
            stats["containment_reported"] += 1
            nontrivial = True
            extra = []
            if is_[0] == "circ" and os_[0] == "circ" and all(math.isfinite(float(q)) for q in list(is_[1]) + list(os_[1])):
                # the point of the inner disc that is farthest from the outer centre decides tangent and nearly tangent pairs
                dx, dy = float(is_[1][0]) - float(os_[1][0]), float(is_[1][1]) - float(os_[1][1])
                dist = math.hypot(dx, dy)
                if dist > 0 and float(is_[1][2]) >= 0:
                    for scale in (1.0, 1 - 2.0 ** -40):
                        extra.append((float(is_[1][0]) + float(is_[1][2]) * scale * dx / dist,
                                      float(is_[1][1]) + float(is_[1][2]) * scale * dy / dist))
            for (px, py) in extra + probe_points(rnd, is_):
                # only points that are exactly inside the inner region count
                if is_[0] == "rect":
                    p = is_[1]
                    inner = exact_in_rect(min(p[0], p[2]), min(p[1], p[3]), max(p[0], p[2]), max(p[1], p[3]), px, py)
                else:
                    inner = exact_in_disc(is_[1][0], is_[1][1], is_[1][2], px, py)
                if inner is not True:
                    continue
                stats["containment_probe_points"] += 1
                if os_[0] == "rect":
                    p = os_[1]
                    x1, y1, x2, y2 = min(p[0], p[2]), min(p[1], p[3]), max(p[0], p[2]), max(p[1], p[3])
                    outer = exact_in_rect(x1, y1, x2, y2, px, py)
                    if not outer:
                        # band for points derived from circles: outside by less than 1e-12 relative is float rounding
                        scale = max(abs(px), abs(py), abs(x1), abs(x2), abs(y1), abs(y2), 1e-300)
                        gap = max(F(x1) - F(px), F(px) - F(x2), F(y1) - F(py), F(py) - F(y2))
                        if gap <= BAND * F(scale):
                            outer = None
                else:
                    outer = exact_in_disc(os_[1][0], os_[1][1], os_[1][2], px, py)
                if outer is False:
                    bad("containment-unsound", "%s %r reports containing %s %r, but its point (%r, %r) is outside"
                        % (os_[0], os_[1], is_[0], is_[1], px, py))
                    break
        return dict(violations=v, nontrivial=nontrivial and not v, stats=stats, sets=sets,
                    sample=dict(a=a, b=b, a_contains_b=bool(ra.containsRegion(rb)), b_contains_a=bool(rb.containsRegion(ra))))

    def thresholds(self, tier):
        return {"membership_evaluations": 100000, "containment_reported": 300, "exact_boundary_points": 2000,
                "containment_probe_points": 3000}
