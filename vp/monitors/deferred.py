"""C06 (deferred codes and enter/exit scripts exactly once per episode) and C15 (print ending while excluding is cleaned up
exactly once): plugin-layer traces segmented into reference episodes, checked against a small deferral model."""
import collections
import re

from .base import Monitor, viol, common_stats, pos_diff
from .motion import mk
from .plugin_hist import EV_START, EV_END
from ..e2e import Engine, brief, TOL
from ..gen import gen_program, gen_regions
from ..harness import Plugin, region_payload, DEFAULT_AT
from ..refprinter import tokenize

RESYNC = re.compile(r"^(G92 E[-+0-9.]+|G0 F[-+0-9.]+( [XYZ][-+0-9.]+)+|G90|G91)$")
RETRACT = re.compile(r"^(G92 E[-+0-9.]+|G1 F[-+0-9.]+ E[-+0-9.]+|G1[01]( .*)?)$")
MODES = ["exclude", "first", "last", "merge"]
POOL = ["G4", "M73", "M117", "M204", "M205", "M900", "M220"]
MERGEABLE = ["M73", "M204", "M205", "M900", "M220", "G4"]


def decorate(rnd, lines):
    """Settings text for a script: comments, blank lines, CRLF, leading/trailing blanks around the real lines."""
    if not lines:
        return rnd.choice([None, "", "\n", "; nothing here\n"])
    eol = rnd.choice(["\n", "\n", "\r\n"])
    out = []
    for l in lines:
        if rnd.random() < 0.3:
            out.append(rnd.choice(["", "   ", "; a comment line", "  ; indented comment"]))
        out.append(" " * rnd.choice([0, 0, 1, 3]) + l + rnd.choice(["", "", " ; trailing comment", "   "]))
    if rnd.random() < 0.5:
        out.append("")
    return eol.join(out)


class Markers(object):
    """Unique commands for the configured codes, so that a delivered command identifies its origin."""

    def __init__(self, ext):
        self.ext = ext
        self.n = 1000

    def __call__(self, rnd):
        # real files repeat commands verbatim (the same M204 S500 before every perimeter): a quarter of the instances are
        # byte-identical repeats of a recent one
        recent = getattr(self, "recent", None)
        if recent and rnd.random() < 0.3:
            return recent[-1] if rnd.random() < 0.5 else rnd.choice(recent)
        follow = getattr(self, "follow", None)
        if follow and rnd.random() < 0.6:
            # ... and then one of the two codes again, with another parameter
            self.follow = None
            self.n += 1
            cmd = "%s %s%d" % (rnd.choice(follow), rnd.choice(["X", "S", "T", "P"]), self.n)
            self.recent = (recent + [cmd])[-5:]
            return cmd
        if recent and rnd.random() < 0.15:
            # the parameter text of a recent command under another code (M204 S500 ... M205 S500)
            params = recent[-1].split(" ", 1)[1] if " " in recent[-1] else ""
            others = [c for c in sorted(self.ext) if c not in ("M117",) and c != recent[-1].split(" ")[0]]
            if params and others and not recent[-1].startswith("M117"):
                other = rnd.choice(others)
                cmd = "%s %s" % (other, params)
                self.recent = (recent + [cmd])[-5:]
                self.follow = [other, recent[-1].split(" ")[0]]
                return cmd
        cmd = self.fresh(rnd)
        if rnd.random() < 0.07:
            cmd = re.sub(r"^([GM])(\d+)", lambda m: m.group(1) + rnd.choice(["0", "00"]) + m.group(2), cmd)    # M0117, G04
        self.recent = (getattr(self, "recent", []) + [cmd])[-5:]
        return cmd

    def fresh(self, rnd):
        code = rnd.choice(sorted(self.ext) + ["M104", "M106"])
        self.n += 1
        n = self.n
        if code == "M117":
            return "M117 MSG#%d" % n
        if code == "G4":
            return "G4 P%d" % n
        if code == "M73":
            return rnd.choice(["M73 P%d", "M73 P%d R%d", "M73 R%d"]).replace("%d", str(n), 1).replace("%d", str(n + 5000))
        if code == "M204":
            return rnd.choice(["M204 S%d", "M204 P%d T%d", "M204 T%d", "M204 P%d", "M204 P%d T0", "M204 S0 P%d", "M204 T0.0 S%d",
                               "M204 P-%d T+%d"]).replace("%d", str(n), 1).replace("%d", str(n + 5000))
        if code == "M205":
            return rnd.choice(["M205 X%d Y%d", "M205 X%d", "M205 Y%d Z%d", "M205 X0 Y%d", "M205 X%d Y0.0", "M205 Z.5 X%d",
                               "M205 X%d Y-0"]).replace("%d", str(n), 1).replace("%d", str(n + 5000))
        if code == "M900":
            return rnd.choice(["M900 K%d", "M900 K%d", "M900 K T%d", "M900 K%d L%d"]).replace("%d", str(n), 1).replace("%d", str(n + 5000))
        if code in MERGEABLE and code != "G4" and rnd.random() < 0.08:
            # magnitudes whose float repr is in exponent notation: the merged command still carries exactly these values
            return "%s %s" % (code, rnd.choice(["S0.0000%d", "S0.00000%d J0.0000004", "S%d0000000000000000", "S%d.5 T123456789012345678",
                                                "S0.000051 T%d"]).replace("%d", str(n)))
        if code == "M220":
            return "M220 S%d" % n
        return "%s S%d" % (code, n)


class DeferModel(object):
    """15-line independent model of the deferral: what must be delivered, and in which order, when the episode ends."""

    def __init__(self, ext):
        self.ext = ext
        self.pending = collections.OrderedDict()

    def see(self, code, cmd, words):
        mode = self.ext.get(code)
        if mode == "first":
            self.pending.setdefault(code, ("cmd", cmd))
        elif mode == "last":
            self.pending.pop(code, None)
            self.pending[code] = ("cmd", cmd)
        elif mode == "merge":
            d = self.pending.pop(code, ("map", collections.OrderedDict()))[1]
            for l, v in words:
                d[l] = v
            self.pending[code] = ("map", d)
        return mode

    def flush(self):
        out = list(self.pending.items())
        self.pending = collections.OrderedDict()
        return out


def match_deferred(expected, got):
    """expected: [(code, ('cmd', text) | ('map', {letter: value}))]; got: list of command strings.  Returns failure or None."""
    if len(expected) != len(got):
        return "expected %d deferred commands %r, got %r" % (len(expected), expected, got)
    for (code, (kind, want)), cmd in zip(expected, got):
        if kind == "cmd":
            if cmd != want:
                return "expected %r at this position, got %r" % (want, cmd)
        else:
            c, _, words = tokenize(cmd)
            letters = [l for l, _ in words]
            if c != code or len(set(letters)) != len(letters) or dict(words) != dict(want):
                return "expected one %s carrying %r, got %r" % (code, list(want.items()), cmd)
    return None


def check_deferral(tr, case, stats, script_steps=True):
    """Trace checker shared by C06 and C15."""
    out = []
    settings = case["settings"]
    ext = settings.get("ext") or {}
    enter = case.get("enter_lines") or []
    exit_ = case.get("exit_lines") or []
    model = DeferModel(ext)
    delivered = collections.Counter()
    seen_in = collections.Counter()
    for r in tr.steps:
        cmds = r["out"] if r["kind"] in ("g", "script") else r["sent"]
        if r["kind"] == "settings":
            # a settings save during the history: the scripts configured from now on
            saved = case["steps"][r["idx"]][1]
            enter = saved.get("enter_lines", enter)
            exit_ = saved.get("exit_lines", exit_)
            stats["c06_settings_saves"] += 1
            if r["open_before"]:
                stats["c06_settings_saves_inside_episode"] += 1
            continue
        if r["kind"] == "event":
            if r.get("event") == EV_START or r["closed"]:
                model.flush()               # abandoned: nothing may ever be delivered from it
            continue
        if r["kind"] not in ("g", "at", "script"):
            continue
        if r["kind"] == "g" and r.get("exc"):
            break
        if r["kind"] == "g" and r.get("code") in ext:
            seen_in[r["cmd"]] += 1
        for c in cmds:
            if c in enter or c in exit_:
                continue
            if tokenize(c)[0] in ext:
                delivered[c] += 0 if (r["kind"] == "g" and c == r["cmd"]) else 1
        if r["closed"]:
            stats["c06_episodes_closed_by_" + str(r["closed_by"])] += 1
            expected = model.flush()
            n_def = len(expected)
            # tail: re-synchronisation commands only
            k = len(cmds)
            while k > 0 and RESYNC.match(cmds[k - 1]):
                k -= 1
            head, tail = cmds[:k], cmds[k:]
            # (no demand on the shape of the re-positioning part here: C03/C04/C07 judge it)
            if head[len(head) - len(exit_):] != exit_ if exit_ else False:
                out.append(viol(tr, r, "exit-script-missing-or-misplaced", "expected %r right before the re-positioning commands, output %r"
                                % (exit_, cmds)))
                continue
            deferred = head[:len(head) - len(exit_)] if exit_ else head
            why = match_deferred(expected, deferred)
            if why:
                out.append(viol(tr, r, "deferred-commands-differ", "%s; full output %r" % (why, cmds)))
            stats["c06_deferred_delivered"] += n_def
            if n_def >= 2 and len(set(ext.get(c) for c, _ in expected)) >= 2:
                stats["c06_episodes_with_two_modes"] += 1
            for c in exit_:
                if cmds.count(c) != 1:
                    out.append(viol(tr, r, "exit-script-not-exactly-once", "%r appears %d times in %r" % (c, cmds.count(c), cmds)))
            continue
        if r["kind"] == "script" or r["kind"] == "at":
            # not a closing step: nothing may be contributed
            if cmds:
                out.append(viol(tr, r, "commands-outside-episode-end", "%r" % (cmds,)))
            continue
        # ---- ordinary G-code step
        code = r.get("code")
        inside = r["open_before"] and not r["opened"]
        rest = list(cmds)
        if r["opened"]:
            stats["c06_episodes_opened"] += 1
            if rest[:len(enter)] != enter:
                out.append(viol(tr, r, "enter-script-missing", "expected %r first, output %r" % (enter, cmds)))
            rest = rest[len(enter):]
        if inside and code in ext:
            stats["c06_codes_withheld"] += 1
            model.see(code, r["cmd"], r["words"])
            if cmds:
                out.append(viol(tr, r, "configured-code-not-withheld", "%r (mode %s) produced %r inside an episode" % (r["cmd"], ext[code], cmds)))
            continue
        codes = [tokenize(c)[0] for c in rest if c != r["cmd"]]
        for gc in ("G1", "G10", "G11", "G92"):
            if codes.count(gc) > 1:
                out.append(viol(tr, r, "generated-command-repeated", "%s appears %d times among the commands generated for %r: %r "
                                "(something from an earlier episode is being replayed)" % (gc, codes.count(gc), r["cmd"], cmds)))
        for c in rest:
            if c == r["cmd"]:
                continue
            # leak detection: a configured code or a script line has no business here (other generated commands - retraction,
            # recovery, whatever a different implementation may add - are not this property's concern)
            if tokenize(c)[0] in ext or c in enter or c in exit_:
                out.append(viol(tr, r, "unexpected-command", "%r in the output of %r (episode open: %s): %r" % (c, r["cmd"], r["open_after"], cmds)))
    for c, n in delivered.items():
        code = tokenize(c)[0]
        if ext.get(code) in ("first", "last") and n > seen_in.get(c, 0):
            out.append(dict(kind="delivered-more-than-once", idx=-1, cmd=c, mechanism=None,
                            detail="%r was delivered %d times but occurs only %d times in the input" % (c, n, seen_in.get(c, 0))))
    return out


def build_case(rnd, tier, for_c15=False):
    codes = rnd.sample(POOL, rnd.randint(2, len(POOL)))
    ext = {}
    for c in codes:
        m = rnd.choice(MODES)
        if m == "merge" and c not in MERGEABLE:
            m = rnd.choice(["first", "last", "exclude"])
        ext[c] = m
    n_enter, n_exit = rnd.choice([0, 0, 1, 2]), rnd.choice([0, 0, 1, 3])
    enter = ["M117 ENTER#%d" % k for k in range(n_enter)]
    exit_ = ["M117 EXIT#0", "M400", "M106 S201"][:n_exit]
    if n_exit and rnd.random() < 0.5:
        exit_ = list(reversed(exit_))
    at = [list(a) for a in DEFAULT_AT]
    if rnd.random() < 0.15:
        # a second disable rule that matches the same command as the default one (a shorthand the user added), listed twice even
        at += [["ExcludeRegion", r"^\s*off\b", "disable_exclusion"], ["ExcludeRegion", r"^\s*(disable|off)(\s|$)", "disable_exclusion"]]
    settings = dict(clear=False, shrink=False, g90e=False, ext=ext, at=at,
                    enter=decorate(rnd, enter), exit=decorate(rnd, exit_))
    regs = gen_regions(rnd, rnd.choice([1, 2, 2, 3]))
    marks = Markers(ext)
    steps = []
    nsave = [0]
    deleted = [False]
    cur_settings = [dict(settings, enter_lines=enter, exit_lines=exit_)]
    # C15: sometimes an earlier run of the job is abandoned without any end event (paused, then restarted from the beginning)
    nprints = rnd.choice([1, 1, 2, 3]) if not for_c15 else rnd.choice([1, 1, 1, 2])
    for pi in range(nprints):
        if deleted[0]:
            break                      # no regions left: further prints would have nothing to show
        steps.append(["event", EV_START])
        feats = mk(rel=rnd.random() < 0.3, inch=rnd.random() < 0.2, at=True, fw=rnd.random() < 0.2, p_inside=0.5, extgen=marks,
                   p_ext=0.05, ext=False, zmoves=True, retmove=rnd.random() < 0.5, beds=False, hv=rnd.random() < 0.1, hv_bed_sized=True,
                   arcs=rnd.random() < 0.4, arcs_rel=True, p_arc=0.12)
        if feats["fw"]:
            feats["fwparam"] = ""
        _, g = gen_program(rnd, feats, settings, nsteps=rnd.randint(10, 70), regions=regs)
        prog = [s for s in g.steps if s[0] in ("g", "at")]
        # start G-code of a print: the printer keeps its modal state across prints, the filter assumes the defaults
        prog[1:1] = [["g", "G92 E0"]]
        prog[0:0] = [["g", "G21"], ["g", "G90"]]
        if rnd.random() < 0.3 and len(prog) > 8:
            # the job is paused and resumed (neither ends it nor an episode)
            a = rnd.randrange(4, len(prog) - 2)
            b = rnd.randrange(a + 1, min(len(prog), a + 10) + 1)
            prog.insert(b, ["event", "PrintResumed"])
            prog.insert(a, ["event", "PrintPaused"])
        if rnd.random() < 0.25 and len(prog) > 8:
            # the scripts are edited and saved while the job runs (possibly while an episode is open)
            nsave[0] += 1
            enter2 = ["M117 ENTER%d#%d" % (nsave[0], k) for k in range(rnd.choice([0, 1, 2]))]
            exit2 = ["M117 EXIT%d#0" % nsave[0], "M400", "M106 S%d" % (201 + nsave[0])][:rnd.choice([0, 1, 3])]
            cur = dict(cur_settings[0], enter=decorate(rnd, enter2), exit=decorate(rnd, exit2), enter_lines=enter2, exit_lines=exit2)
            cur_settings[0] = cur
            prog.insert(rnd.randrange(4, len(prog)), ["settings", cur])
        if not for_c15 and rnd.random() < 0.12 and len(prog) > 10:
            # shrinking allowed: all regions are deleted through the API somewhere in the job (possibly while the tool is in one);
            # an open episode then lasts until the next move, and what it withheld is delivered there
            cur_settings[0] = dict(cur_settings[0], shrink=True)
            steps.insert(len(steps) - 0, ["settings", dict(cur_settings[0])])
            cut = rnd.randrange(5, len(prog))
            prog[cut:cut] = [["api_delete", r[-1]] for r in regs]
            deleted[0] = True
        steps += prog
        if for_c15 and g.believed_open() and rnd.random() < 0.15:
            # shrinking allowed: the region the tool is in is deleted through the API, then the job completes
            steps.insert(1, ["settings", dict(cur_settings[0], shrink=True)])
            for st in steps:
                if st[0] == "settings":
                    st[1]["shrink"] = True
            steps += [["api_delete", r[-1]] for r in regs]
        k = rnd.random()
        if for_c15 and pi == nprints - 1:
            break
        if for_c15:
            continue
        if k < 0.45:
            steps.append(["script", "gcode", "afterPrintDone"])
            steps.append(["event", "PrintDone"])
        elif k < 0.6:
            steps.append(["event", rnd.choice(EV_END)])
            steps.append(["script", "gcode", "afterPrintDone"])
        elif k < 0.8:
            steps.append(["event", rnd.choice(EV_END)])
            if rnd.random() < 0.5:
                # commands queued between jobs (jogging, a message): no job is active, nothing of the dead episode may surface
                between = [["g", "G90"], ["g", "G1 X%d Y%d F3000" % (rnd.randint(150, 190), rnd.randint(150, 190))], ["g", marks(rnd)],
                           ["g", "G1 X%d Y%d" % (rnd.randint(150, 190), rnd.randint(150, 190))]]
                steps += between[:rnd.randint(2, 4)]
        # else: the next PrintStarted (if any) arrives without any end event
    if for_c15:
        names = ["afterPrintDone", "afterPrintDone", "beforePrintStarted", "afterPrintCancelled", "afterPrintPaused", "beforePrintResumed"]
        tail = []
        for _ in range(rnd.randint(1, 7)):
            q = rnd.random()
            if q < 0.75:
                tail.append(["script", rnd.choice(["gcode", "gcode", "gcode", "other", "GCODE"]), rnd.choice(names)])
            else:
                tail.append(["event", rnd.choice(EV_END + ["PrintPaused"])])
        steps += tail
    return dict(settings=settings, regions=regs, steps=steps, enter_lines=enter, exit_lines=exit_)


def run_plugin_case(case):
    p = Plugin(case["settings"])
    for r in case["regions"]:
        p.api("addExcludeRegion", region_payload(r))
    p.pm.take()
    p.add_region = lambda r: p.api("addExcludeRegion", region_payload(r))
    eng = Engine(dict(case, settings=dict(case["settings"], enter=None, exit=None)), driver=p)
    eng.active = False
    return eng.run()


class C06(Monitor):
    prop = "C06"
    quick_cases = 900
    rule = ("plugin-layer histories of 1-3 prints; random assignment of modes {exclude, first, last, merge} to codes from {G4, M73, M117, "
            "M204, M205, M900, M220}; enter/exit scripts set through the real settings as multi-line text with comments, blank lines, "
            "CRLF and leading blanks; every deferred instance and script line carries a unique marker; episodes end by a move out, a "
            "disable @-command, the afterPrintDone script hook, or are abandoned by a print-end event / a new PrintStarted; a 15-line "
            "deferral model predicts the exact command list at every episode end; non-trivial = an episode delivering >= 2 deferred "
            "codes of different modes; distinct by digest")
    assumptions = ["merged commands are compared as letter->value maps read by the independent RS274 reader",
                   "re-positioning and retraction commands are recognised by shape (G92 E / G0 F.. / G90 / G91 / G1 F.. E.. / G10 / G11)"]


    def gen_case(self, rnd, tier, k):
        return build_case(rnd, tier)

    def check_case(self, case):
        stats = collections.Counter()
        sets = collections.defaultdict(set)
        tr = run_plugin_case(case)
        common_stats(tr, stats, sets)
        v = check_deferral(tr, case, stats)
        if tr.exc is not None:
            v.append(dict(kind="exception", idx=tr.exc[0], cmd=tr.exc[1], detail=tr.exc[2], mechanism=None))
        if tr.truncated:
            v = [x for x in v if x.get("idx", -1) < len(tr.steps)]
        nontrivial = stats.get("c06_episodes_with_two_modes", 0) > 0
        return dict(violations=v, nontrivial=nontrivial and not v, stats=stats, sets=sets,
                    sample=dict(ext=case["settings"]["ext"], enter=case["settings"]["enter"], exit=case["settings"]["exit"],
                                trace=brief(tr, 45)))

    def thresholds(self, tier):
        return {"c06_episodes_opened": 500, "c06_codes_withheld": 500, "c06_deferred_delivered": 300, "c06_episodes_closed_by_move": 300,
                "c06_episodes_closed_by_at": 10, "c06_episodes_closed_by_script": 30, "c06_episodes_with_two_modes": 30}


class C15(Monitor):
    prop = "C15"
    quick_cases = 1200
    rule = ("plugin-layer: one print whose program ends inside or outside an episode (with deferred codes pending), followed by a "
            "random sequence of script-hook calls over {gcode, other types} x {afterPrintDone, beforePrintStarted, "
            "afterPrintCancelled, ...} mixed with print-end events in both orders; oracle: the first (gcode, afterPrintDone) call while "
            "active and an episode is open returns (prefix, None) where prefix = deferred commands + exit script + re-positioning "
            "(checked by the C06 model) after which the printer is where the file is and the filter is not excluding; every other "
            "call returns None; non-trivial = program that ended inside an episode with deferred codes pending; distinct by digest")
    assumptions = C06.assumptions


    def gen_case(self, rnd, tier, k):
        return build_case(rnd, tier, for_c15=True)

    def check_case(self, case):
        stats = collections.Counter()
        sets = collections.defaultdict(set)
        tr = run_plugin_case(case)
        common_stats(tr, stats, sets)
        v = check_deferral(tr, case, stats)
        nontrivial = False
        for r in tr.steps:
            if r["kind"] != "script":
                continue
            stats["c15_script_hook_calls"] += 1
            res = r.get("script_result")
            contributed = res is not None and any(bool(x) for x in (res if isinstance(res, (tuple, list)) else [res]))
            if r.get("expect_prefix"):
                stats["c15_cleanups_expected"] += 1
                if not (isinstance(res, tuple) and len(res) >= 2 and not res[1] and isinstance(res[0], (list, tuple)) and res[0]):
                    v.append(viol(tr, r, "cleanup-missing", "an episode is open at the end of the print, the hook returned %r" % (res,)))
                    continue
                hs = r["hs"]
                if hs["excluding"]:
                    v.append(viol(tr, r, "still-excluding-after-cleanup", "excluding stays set"))
                A, B = r["A_after"], r["B_after"]
                # relative moves to astronomic coordinates and back leave a rounding residue of the order of an ulp of the largest
                # coordinate visited (1.2e-4 mm at 1e12 mm), differently in every implementation: not a position error
                big = max([1.0] + [abs(c) for q in tr.steps for c in q["B_after"]["pos"]])
                if pos_diff(A["pos"], B["pos"]) > max(TOL, 2e-15 * big) or A["abs_xyz"] != B["abs_xyz"] or A["unit"] != B["unit"]:
                    v.append(viol(tr, r, "cleanup-does-not-resynchronise", "printer %r abs=%s unit=%s, file %r abs=%s unit=%s"
                                  % (A["pos"], A["abs_xyz"], A["unit"], B["pos"], B["abs_xyz"], B["unit"])))
                if abs(A["e"] - B["e"]) > 1e-9 * (1.0 + abs(A["e"]) + abs(B["e"])):
                    v.append(viol(tr, r, "cleanup-does-not-resynchronise-extruder", "after the cleanup the printer's E is %r, the file "
                                  "assumes %r" % (A["e"], B["e"])))
                if tr.steps[r["idx"] - 1].get("hs", {}).get("pending"):
                    nontrivial = True
            else:
                stats["c15_calls_expected_none"] += 1
                if contributed:
                    v.append(viol(tr, r, "hook-contributed-unexpectedly", "type=%r name=%r (print active: %s, episode open: %s) returned %r"
                                  % (r["stype"], r["sname"], r.get("open_before"), r["open_before"], res)))
        if tr.exc is not None:
            v.append(dict(kind="exception", idx=tr.exc[0], cmd=tr.exc[1], detail=tr.exc[2], mechanism=None))
        return dict(violations=v, nontrivial=nontrivial and not v, stats=stats, sets=sets,
                    sample=dict(ext=case["settings"]["ext"], tail=case["steps"][-8:], trace=brief(tr, 30)))

    def thresholds(self, tier):
        return {"c15_script_hook_calls": 1000, "c15_cleanups_expected": 100, "c15_calls_expected_none": 500}
