"""C08: exclusion decisions are invariant under re-encoding of the same tool path (metamorphic pairs, core layer)."""
import collections

from .base import Monitor, common_stats
from ..e2e import run_case, brief
from ..gen import fmt, gen_regions
from ..harness import depth_in, digest

G = 0.0254          # grid (mm): exact decimal in mm (4 places) and in inches (0.001)
BEDK = 2300         # bed size in grid counts (~58 mm)
MARGIN = 0.1


def gen_path(rnd, regs, arcs=False, homes=False):
    """Abstract tool path on the grid: ('move', kx, ky, kz|None, dek, g) / ('z', kz) / ('retract',) / ('recover',) / ('misc', cmd)."""
    def pt(inside):
        for _ in range(300):
            kx, ky = rnd.randint(40, BEDK), rnd.randint(40, BEDK)
            if rnd.random() < 0.08:
                if rnd.random() < 0.5:
                    kx = 0        # a coordinate of exactly 0 (bed edge)
                else:
                    ky = 0
            d = depth_in(regs, kx * G, ky * G) if regs else -1.0
            if abs(d) < MARGIN:
                continue
            if inside is None or (d > 0) == inside:
                return kx, ky
        return kx, ky
    path = []
    kz = 8
    retracted = False
    kx, ky = pt(False)
    path.append(("move", kx, ky, kz, 0, "G1"))
    for _ in range(rnd.randint(6, 40)):
        k = rnd.random()
        if k < 0.45:
            if retracted:
                path.append(("recover",))
                retracted = False
            kx, ky = pt(rnd.random() < 0.45)
            z = None
            if rnd.random() < 0.15:
                kz = max(4, kz + rnd.choice([-8, 8, 8, 16, 40]))
                z = kz
            path.append(("move", kx, ky, z, rnd.randint(2, 60), "G1"))
        elif k < 0.53 and arcs and not retracted:
            # I/J arc about a grid centre; the end point is the rotated start, snapped to the grid (firmware tolerates the residue)
            import math
            for _ in range(20):
                rad = rnd.choice([80, 140, 200, 360, 560])
                a0 = rnd.uniform(0, 2 * math.pi)
                ckx, cky = int(round(kx - rad * math.cos(a0))), int(round(ky - rad * math.sin(a0)))
                sw = rnd.uniform(0.4, 5.5)
                cw = rnd.random() < 0.5
                a1 = math.atan2(ky - cky, kx - ckx) + (-sw if cw else sw)
                r0 = math.hypot(kx - ckx, ky - cky)
                ex, ey = int(round(ckx + r0 * math.cos(a1))), int(round(cky + r0 * math.sin(a1)))
                if not (40 <= ex <= BEDK and 40 <= ey <= BEDK):
                    continue
                if regs and abs(depth_in(regs, ex * G, ey * G)) < MARGIN:
                    continue
                path.append(("arc", ckx, cky, ex, ey, cw, rnd.randint(2, 60)))
                kx, ky = ex, ey
                break
        elif k < 0.65:
            kx, ky = pt(rnd.random() < 0.4)
            z = None
            if rnd.random() < 0.3:
                kz = max(4, kz + rnd.choice([-8, 8, 16, 40]))
                z = kz
            path.append(("move", kx, ky, z, 0, rnd.choice(["G0", "G1"])))
        elif k < 0.8:
            path.append(("recover",) if retracted else ("retract",))
            retracted = not retracted
        elif k < 0.88:
            kz = max(4, kz + rnd.choice([-8, 8, 8, 40]))
            path.append(("z", kz))
        elif k < 0.92 and homes and not retracted and (not regs or depth_in(regs, kx * G, ky * G) < -MARGIN):
            # re-homing X and Y in the middle of the file (outside every region), whatever modes are in force
            ax = rnd.choice(["XY", "XY", "X", "Y"])
            nx, ny = (0 if "X" in ax else kx), (0 if "Y" in ax else ky)
            if not regs or depth_in(regs, nx * G, ny * G) < -MARGIN:
                path.append(("home", ax))
                kx, ky = nx, ny
        else:
            path.append(("misc", rnd.choice(["M106 S255", "M117 hello", "M204 S500", "G4 P10", "M400", "G1 F1800", "M73 P10"])))
    return path


def render(path, enc):
    """Concrete program for an abstract path under an encoding; returns (steps, absidx) with absidx[i] = abstract index or None."""
    kind, at = enc["kind"], enc.get("at", 0)
    tx, ty = enc.get("t", (0, 0))
    steps, amap = [["g", "G28"]], [None]
    unit_in = False
    rel = False
    shift = [0, 0, 0]
    cur = [0, 0, 0]         # physical grid counts (incl. translation)
    ek = 0
    pre = None
    RET = 120

    def num(k):
        t = fmt(k * 0.001, 3) if unit_in else fmt(k * G, 4)
        if enc.get("dot"):
            # legal spelling without the leading zero: .5 / -.5
            if t.startswith("0."):
                t = t[1:]
            elif t.startswith("-0."):
                t = "-" + t[2:]
        return t

    def eword(new, old):
        # with the G90-influences-extruder setting on, E words are offsets while positioning is relative
        return "E" + num(new - old if (rel and enc.get("g90e")) else new)

    def word(ax, target):
        i = "XYZ".index(ax)
        v = (target - cur[i]) if rel else (target - shift[i])
        cur[i] = target
        return ax + num(v)
    if kind == "inch-then-mm":
        unit_in = True
        steps.append(["g", "G20"])
        amap.append(None)
    for ai, st in enumerate(path):
        if rel and enc.get("until") is not None and ai == enc["until"]:
            # back to absolute positioning: the relative stretch was only a window
            rel = False
            steps.append(["g", "G90"])
            amap.append(None)
        if ai == at and kind == "inch-then-mm":
            unit_in = False
            steps.append(["g", "G21"])
            amap.append(None)
        if ai == at and kind == "m206-pair":
            # home offsets set and taken back at once: whatever they mean to the firmware, together they change nothing
            a, b = enc.get("m206", (5, -3))
            steps.append(["g", "M206 X%s Y%s" % (a, b)])
            amap.append(None)
            steps.append(["g", "M206 X0 Y0"])
            amap.append(None)
        if ai == at and kind in ("inch", "relative", "g92", "relative-inch"):
            if kind == "inch":
                unit_in = True
                steps.append(["g", "G20"])
            elif kind == "relative":
                rel = True
                steps.append(["g", "G91"])
            elif kind == "relative-inch":
                rel = unit_in = True
                steps.append(["g", "G20"])
                amap.append(None)
                steps.append(["g", "G91"])
            else:
                shift = list(enc["shift"])
                axes = enc.get("axes", "XYZ")
                for i, a in enumerate("XYZ"):
                    if a not in axes:
                        shift[i] = 0
                steps.append(["g", "G92 " + " ".join("%s%s" % (a, num(cur["XYZ".index(a)] - shift["XYZ".index(a)]))
                                                       for a in "XYZ" if a in axes)])
            amap.append(None)
        if st[0] == "move":
            _, kx, ky, kz, dek, g = st
            ws = [word("X", kx + tx), word("Y", ky + ty)]
            if kz is not None:
                ws.append(word("Z", kz))
            if dek:
                ek += dek
                ws.append(eword(ek, ek - dek))
            steps.append(["g", g + " " + " ".join(ws)])
        elif st[0] == "arc":
            _, ckx, cky, ex, ey, cw, dek = st
            i, j = (ckx + tx) - cur[0], (cky + ty) - cur[1]
            ws = [word("X", ex + tx), word("Y", ey + ty), "I" + num(i), "J" + num(j)]
            ek += dek
            ws.append(eword(ek, ek - dek))
            steps.append(["g", ("G2 " if cw else "G3 ") + " ".join(ws)])
        elif st[0] == "home":
            for a in st[1]:
                cur["XYZ".index(a)] = 0
                shift["XYZ".index(a)] = 0
            steps.append(["g", "G28 " + " ".join(st[1])])
        elif st[0] == "z":
            steps.append(["g", "G1 " + word("Z", st[1])])
        elif st[0] == "retract":
            pre = ek
            ek -= RET
            steps.append(["g", "G1 %s F2400" % eword(ek, pre)])
        elif st[0] == "recover":
            steps.append(["g", "G1 %s F2400" % eword(pre, ek)])
            ek = pre
        else:
            steps.append(["g", st[1]])
        amap.append(ai)
    return steps, amap


def translate(regs, tx, ty):
    out = []
    for r in regs:
        if r[0] == "rect":
            out.append(["rect", r[1] + tx * G, r[2] + ty * G, r[3] + tx * G, r[4] + ty * G, r[5]])
        else:
            out.append(["circ", r[1] + tx * G, r[2] + ty * G, r[3], r[4]])
    return out


class C08(Monitor):
    prop = "C08"
    quick_cases = 1500
    rule = ("abstract tool paths (moves, Z changes, extrusions, E-only retract cycles; no arcs) on a 0.0254 mm grid with destinations "
            ">= 0.1 mm from region borders, rendered in absolute millimetres and again with one re-encoding applied from a random "
            "step: inches (G20), relative (G91), G92 X/Y/Z re-basing, translation of path and regions by a grid vector; oracle: per "
            "abstract step equal (suppressed?, excluding afterwards, printer position minus translation, pushed filament) and equal "
            "final position; non-trivial = a pair in which an episode opens after the re-encoding point; distinct by digest of the pair")
    assumptions = ["both runs use the same reference printer model"]


    def gen_case(self, rnd, tier, k):
        regs = [r for r in gen_regions(rnd, rnd.choice([1, 1, 2, 3, 4])) if not (r[0] == "rect" and min(r[1], r[3]) < 0.5)]
        if not regs:
            regs = [["rect", 10.0, 10.0, 25.0, 25.0, "r0"]]
        kind = rnd.choice(["inch"] * 2 + ["inch-then-mm"] * 2 + ["relative"] * 3 + ["translate"] * 3 + ["g92"] + ["relative-inch"]
                          + ["m206-pair"])
        # arcs only where both encodings sample them identically (same units): the property's quantifier has no arcs, the
        # statement does not exclude them
        path = gen_path(rnd, regs, arcs=(kind in ("relative", "translate") and rnd.random() < 0.5),
                        homes=(kind in ("inch", "inch-then-mm", "relative", "relative-inch") and rnd.random() < 0.5))
        enc = dict(kind=kind, at=rnd.randrange(1, len(path)), dot=rnd.random() < 0.4)
        if kind == "g92":
            enc["shift"] = [rnd.randint(-2000, 2000), rnd.randint(-2000, 2000), rnd.randint(-100, 100)]
            enc["axes"] = rnd.choice(["XYZ", "XY", "X", "Y", "Z", "XZ"])
        if kind == "m206-pair":
            enc["m206"] = (rnd.choice([5, -2.5, 10, 0.4]), rnd.choice([0, -3, 7.25]))
        if kind == "translate":
            enc["t"] = (rnd.randint(-300, 4000), rnd.randint(-300, 4000))
            enc["at"] = 0
        if kind in ("relative", "relative-inch") and rnd.random() < 0.4:
            enc["g90e"] = True        # both runs with the setting on; only the re-encoded one ever is in relative mode
        if kind in ("relative", "relative-inch") and rnd.random() < 0.5 and enc["at"] + 2 < len(path):
            enc["until"] = rnd.randrange(enc["at"] + 1, len(path))
        return dict(cls=kind, regions=regs, path=[list(p) for p in path], enc=enc)

    def check_case(self, case):
        stats = collections.Counter()
        sets = collections.defaultdict(set)
        path = [tuple(p) for p in case["path"]]
        enc = case["enc"]
        regs = case["regions"]
        s1, m1 = render(path, dict(kind="none"))
        s2, m2 = render(path, enc)
        tx, ty = enc.get("t", (0, 0))
        regs2 = translate(regs, tx, ty) if enc["kind"] == "translate" else regs
        st = dict(g90e=True) if enc.get("g90e") else {}
        t1 = run_case(dict(settings=dict(st), regions=regs, steps=s1))
        t2 = run_case(dict(settings=dict(st), regions=regs2, steps=s2))
        common_stats(t1, stats, sets)
        stats["class:" + enc["kind"]] += 1
        stats["tracked_frame_differs_from_k2_arithmetic_intervals"] += len(t2.kmis)
        if any(e.get("mech") == "g92_xyz_offset_sign" for e in t2.div_log):
            stats["cases_with_k2_divergence"] += 1
        v = []
        if t1.truncated or t2.truncated or t1.exc or t2.exc:
            stats["pairs_truncated"] += 1
            if t1.exc or t2.exc:
                e = t1.exc or t2.exc
                v.append(dict(kind="exception", idx=e[0], cmd=e[1], detail=e[2], mechanism=None))
            return dict(violations=v, nontrivial=False, stats=stats, sets=sets, sample=None)
        r1 = dict((m1[i], t1.steps[i]) for i in range(len(t1.steps)) if m1[i] is not None)
        r2 = dict((m2[i], t2.steps[i]) for i in range(len(t2.steps)) if m2[i] is not None)
        nontrivial = False
        off = (tx * G, ty * G, 0.0)
        for ai in range(len(path)):
            a, b = r1.get(ai), r2.get(ai)
            if a is None or b is None:
                continue
            stats["c08_steps_compared"] += 1
            sa, sb = a["cmd"] not in a["out"], b["cmd"] not in b["out"]
            ea, eb = a["hs"]["excluding"], b["hs"]["excluding"]
            pa = a["A_after"]["pos"]
            pb = tuple(b["A_after"]["pos"][k] - off[k] for k in range(3))
            fa, fb = a["A_after"]["fil"], b["A_after"]["fil"]
            what = None
            if sa != sb:
                what = "suppressed differs: base %s, re-encoded %s" % (sa, sb)
            elif ea != eb:
                what = "episode state differs: base excluding=%s, re-encoded excluding=%s" % (ea, eb)
            elif max(abs(pa[k] - pb[k]) for k in range(3)) > 1e-6:
                what = "printer position differs: base %r, re-encoded (minus translation) %r" % (pa, pb)
            elif abs(fa - fb) > 1e-9 * max(1.0, abs(fa)):
                what = "pushed filament differs: base %r, re-encoded %r" % (fa, fb)
            if what:
                v.append(dict(kind="decision-not-invariant", idx=b["idx"], cmd="%s | %s" % (a["cmd"], b["cmd"]),
                              detail="abstract step %d (%s from step %d): %s" % (ai, enc["kind"], enc["at"], what),
                              mechanism=t2.mechanism_at(b["idx"], (b.get("ep_open") or b["idx"]) - 1)))
                break
            if ai >= enc.get("at", 0) and a["opened"]:
                nontrivial = True
        sample = dict(cls=enc["kind"], regions=regs, enc=enc, base=brief(t1, 14), reencoded=brief(t2, 16))
        return dict(violations=v, nontrivial=nontrivial and not v, stats=stats, sets=sets, sample=sample)

    def witnesses(self):
        path = [["move", 1969, 1969, 8, 0, "G1"], ["move", 590, 590, None, 40, "G1"], ["move", 1969, 1969, None, 40, "G1"]]
        return [("K2", dict(cls="g92", regions=[["rect", 10.0, 10.0, 20.0, 20.0, "r0"]], path=path,
                            enc=dict(kind="g92", at=1, shift=[1969, 1969, 0], axes="XY")))]

    def thresholds(self, tier):
        return {"c08_steps_compared": 5000, "class:inch": 30, "class:inch-then-mm": 30, "class:relative": 50, "class:g92": 50,
                "class:translate": 50}
