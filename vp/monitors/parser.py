"""C18 (parser lossless, normalisation stable) and C19 (parameter extraction matches the RS274/Marlin reading)."""
import collections
import time

from .base import Monitor
from ..harness import Core, digest
from ..refprinter import tokenize, Printer, WORD
from ..gen import fmt

from octoprint_excluderegion.GcodeParser import GcodeParser

ALPHABET = list("GMTNXYZEFSPgmtnxyze") + list("0123456789") * 2 + list("+-..  \t**;;\\\\(@") + ["\r", "\n", "\n", "\r\n", "é", "W", "w", ":", "✓", "温", "Ł", "𝄞"] + \
    ["\x0b", "\x0c", "\xa0", "\x1c", "\x1f", "\x85", "\u2028", "\u3000"]      # what str.strip() removes, but the G-code grammar does not


def rand_text(rnd, maxlen=60):
    n = rnd.randint(0, maxlen)
    s = "".join(rnd.choice(ALPHABET) for _ in range(n))
    return s


def structured_line(rnd):
    ws = lambda: " " * rnd.choice([0, 0, 0, 1, 2, 3])   # noqa: E731
    parts = [ws()]
    has_n = rnd.random() < 0.4
    if has_n:
        parts.append(rnd.choice("Nn") + str(rnd.randint(0, 99999)) + ws())
    k = rnd.random()
    if k < 0.8:
        parts.append(rnd.choice("GgMm") + ws() + str(rnd.choice([0, 1, 2, 28, 92, 104, 117, 204, 900, rnd.randint(0, 999)])))
        if rnd.random() < 0.15:
            parts.append("." + str(rnd.randint(0, 9)))
    elif k < 0.9:
        parts.append(rnd.choice("Tt") + ws() + str(rnd.randint(0, 5)))
    else:
        parts.append(rnd.choice(["@pause", "@ExcludeRegion off", "hello", "ok T:20", "(comment)", ""]))
    parts.append(ws())
    for _ in range(rnd.randint(0, 4)):
        w = rnd.choice("XYZEFSPxyze") + ws() + rnd.choice(["", "1", "-1.5", "+.5", "5.", "0010", "1e3", "\\;", "\\\\", "a b", "✓", "温度"])
        if rnd.random() < 0.06:
            w = rnd.choice(["\x0b", "\x0c", "\xa0", "\x85", "\u2028", "\t"]) + w if rnd.random() < 0.5 else w + rnd.choice(["\x0b", "\x0c", "\xa0", "\x1c", "\u2028"])
        parts.append(w + ws())
    if rnd.random() < 0.4:
        parts.append("*" + str(rnd.randint(0, 255)) + ws())
    if rnd.random() < 0.4:
        parts.append(";" + rnd.choice(["", " comment", " N5 G1 *3", ";;", " \\", " done ✓", " 温度 60"]))
    parts.append(rnd.choice(["\n", "\n", "\r\n", "\r", ""]))
    return "".join(parts)


def gen_text(rnd):
    if rnd.random() < 0.5:
        return "".join(structured_line(rnd) for _ in range(rnd.randint(1, 4)))[:120]
    s = rand_text(rnd)
    # bound back-slash runs (exponential regex backtracking beyond ~12 is a stated limit, DESIGN.md section 6)
    while "\\" * 13 in s:
        s = s.replace("\\" * 13, "\\" * 12)
    return s


class C18(Monitor):
    prop = "C18"
    quick_cases = 2500
    rule = ("strings over the G-code alphabet (letters incl. G M T N, digits, sign, dot, space, tab, '*', ';', backslash, '(', '@', "
            "':', CR, LF, a non-ASCII letter), half of them structured lines, length <= 120, back-slash runs <= 12; parsed line by "
            "line with ONE parser instance; one case = a batch of 50 strings; non-trivial = a string of >= 2 lines containing a "
            "command with line number or checksum; distinct by digest of the string")
    assumptions = ["longer back-slash runs make the line regex backtrack exponentially (stated limit)",
                   "a line that exceeds the 2 s watchdog is counted as slow, not judged"]
    BATCH = 50


    def gen_case(self, rnd, tier, k):
        return dict(texts=[gen_text(rnd) for _ in range(self.BATCH)])

    def check_case(self, case):
        stats = collections.Counter()
        v = []
        nt = []
        shared = GcodeParser()        # one parser instance for the whole batch, re-used for every new text as the plugin does
        for n, text in enumerate(case["texts"]):
            t0 = time.time()
            fails = self.check_text(text, stats, shared if n % 2 else None)
            if time.time() - t0 > 2.0:
                stats["slow_case"] += 1
                continue
            for kind, detail in fails:
                v.append(dict(kind=kind, idx=-1, cmd=repr(text), detail=detail, mechanism=None))
            if not fails and stats.get("_nt"):
                nt.append(digest(text))
            stats.pop("_nt", None)
        return dict(violations=v, nontrivial_digests=nt, stats=stats, sets={}, evaluations=len(case["texts"]),
                    sample=dict(text=case["texts"][0]))

    @staticmethod
    def check_text(text, stats, parser=None):
        fails = []
        p = parser if parser is not None else GcodeParser()
        stats["texts_on_reused_parser" if parser is not None else "texts_on_fresh_parser"] += 1
        total = 0
        pieces = []
        lines = 0
        interesting = False
        try:
            p.parse(text)
            while True:
                if p.length == 0 and p.offset < len(text):
                    fails.append(("parser-stuck", "zero-length match at offset %d" % p.offset))
                    break
                total += p.length
                full = p.fullText
                pieces.append(full)
                lines += 1
                stats["lines_parsed"] += 1
                if full != text[p.offset:p.offset + p.length]:
                    fails.append(("fulltext-differs", "line at offset %d: fullText %r, input slice %r"
                                  % (p.offset, full, text[p.offset:p.offset + p.length])))
                    break
                if p.gcode is not None:
                    stats["command_lines"] += 1
                    fails += C18.check_command(p, stats)
                    if p.lineNumber is not None or p.checksum is not None:
                        interesting = True
                    if fails:
                        break
                if p.offset + p.length >= len(text):
                    break
                p.parse()
        except Exception as exc:  # noqa: B902
            fails.append(("parser-raised", "%s: %s" % (type(exc).__name__, exc)))
            return fails
        if not fails:
            if total != len(text):
                fails.append(("not-consumed-completely", "lengths sum to %d, input has %d characters" % (total, len(text))))
            elif "".join(pieces) != text:
                fails.append(("concatenation-differs", "joined fullText %r" % ("".join(pieces),)))
        if lines >= 2 and interesting:
            stats["_nt"] = 1
        return fails

    @staticmethod
    def check_command(p, stats):
        fails = []
        cs = p.commandString
        snap = dict(gcode=p.gcode, subCode=p.subCode, parameters=p.parameters, lineNumber=p.lineNumber, cs=cs)
        q = GcodeParser()
        try:
            q.parse(cs)
        except Exception as exc:  # noqa: B902
            return [("reparse-raised", "commandString %r: %r" % (cs, exc))]
        stats["reparse_checks"] += 1
        again = dict(gcode=q.gcode, subCode=q.subCode, parameters=q.parameters, lineNumber=q.lineNumber, cs=q.commandString)
        if again != snap or q.length != len(cs):
            fails.append(("normalisation-not-stable", "first parse %r, re-parse of its commandString %r (consumed %d of %d)"
                          % (snap, again, q.length, len(cs))))
        if p.lineNumber is not None:
            rendered = p.stringify()
            r = GcodeParser()
            try:
                r.parse(rendered)
                stats["checksum_roundtrips"] += 1
                if r.checksum is None:
                    fails.append(("rendered-line-has-no-checksum", "stringify() gave %r" % (rendered,)))
                else:
                    r.validate()
            except ValueError as exc:
                fails.append(("rendered-line-fails-own-checksum", "stringify() gave %r: %s" % (rendered, exc)))
            except Exception as exc:  # noqa: B902
                fails.append(("rendered-line-raised", "stringify() gave %r: %r" % (rendered, exc)))
        return fails

    def thresholds(self, tier):
        return {"lines_parsed": 20000, "reparse_checks": 5000, "checksum_roundtrips": 1500}


# ======================================================================================= C19

LETTERS = "XYZEFIJRSPT"


def spell_number(rnd):
    k = rnd.random()
    if k < 0.12:
        return None, ""
    mag = rnd.choice([1, 1, 10, 100, 0.01])
    v = rnd.uniform(0, 60) * mag
    nd = rnd.choice([0, 1, 2, 3, 5])
    s = fmt(v, nd)
    q = rnd.random()
    if q < 0.15 and "." not in s:
        s = s + "."
    elif q < 0.3 and s.startswith("0.") and len(s) > 2:
        s = s[1:]
    elif q < 0.4:
        s = "00" + s
    elif q < 0.5 and "." in s:
        s = s + "00"
    sign = rnd.choice(["", "", "", "+", "-", "-"])
    return float(sign + s), sign + s


def gen_words(rnd, letters=LETTERS, n=None):
    n = rnd.randint(0, 6) if n is None else n
    out = []
    text = ""
    for _ in range(n):
        l = rnd.choice(letters)
        if rnd.random() < 0.3:
            l = l.lower()
        v, s = spell_number(rnd)
        ws = "\t" if rnd.random() < 0.1 else " "       # RS274: a tab is as good as a blank, anywhere
        inner = ws * rnd.choice([0, 0, 0, 1, 2]) if s else ""
        text += ws * rnd.choice([0, 1, 1, 1, 2]) + l + inner + s
        out.append((l.upper(), v))
    return out, text + " " * rnd.choice([0, 0, 1])


def reference_read(param_text):
    """Straightforward RS274 reading: letter, optional blanks, optional plain-decimal number."""
    return [(m.group(1).upper(), None if m.group(2) is None else float(m.group(2))) for m in WORD.finditer(param_text)]


class C19(Monitor):
    prop = "C19"
    quick_cases = 600
    rule = ("word sequences over X Y Z E F I J R S P T in every legal spelling (case, 0-2 blanks or tabs between and inside words, signs, "
            ".5, 5., leading zeros, trailing zeros, repeated letters, valueless flags), no exponents; (a) real parameterItems() "
            "restricted to letter-named items vs an independent reader and vs the generator's intended list; (b) through the real "
            "handlers: tracked position after G0/G1, G92 E, G28 and absolute G2/G3 vs the reference printer, which uses the LAST "
            "value per letter; one case = a batch of 40 commands; non-trivial = a sequence with a repeated letter and a '5.' or '.5' "
            "spelling; distinct by digest of the command text")
    assumptions = ["G92 X/Y/Z is excluded from part (b): its offset arithmetic is the recorded finding K2", "no exponent notation"]
    BATCH = 40


    def gen_case(self, rnd, tier, k):
        items = []
        for _ in range(self.BATCH):
            t = rnd.random()
            if t < 0.5:
                words, text = gen_words(rnd)
                code = rnd.choice(["G1", "G0", "M204", "g1", "G 1", "M900", "G92"])
                items.append(dict(t="items", cmd=code + text, words=words))
            else:
                items.append(self.gen_handler_item(rnd))
        return dict(items=items)

    @staticmethod
    def gen_handler_item(rnd):
        pre = ["G28", "G1 X%s Y%s Z%s F1000" % (fmt(rnd.uniform(0, 50), 2), fmt(rnd.uniform(0, 50), 2), fmt(rnd.uniform(0, 5), 2))]
        if rnd.random() < 0.3:
            pre.append("G91")
        if rnd.random() < 0.2:
            pre.append("G20")
        k = rnd.random()
        if k < 0.6:
            words, text = gen_words(rnd, "XYZEFxyzXY", rnd.randint(1, 6))
            cmd = rnd.choice(["G1", "G0", "g1"]) + text
        elif k < 0.75:
            words, text = gen_words(rnd, "EEXYZ", rnd.randint(1, 3))
            words = [(l, v) for l, v in words]
            cmd = "G92" + text
        elif k < 0.85:
            words, text = gen_words(rnd, "XYZ", rnd.randint(0, 3))
            cmd = "G28" + text
        else:
            words, text = gen_words(rnd, "XYIJEFXYIJXYZPS", rnd.randint(2, 6))
            cmd = rnd.choice(["G2", "G3"]) + text
        return dict(t="handler", pre=pre, cmd=cmd, words=words, mode=rnd.choice(["plain", "plain", "disabled", "covered"]),
                    twice=rnd.random() < 0.2)

    def check_case(self, case):
        stats = collections.Counter()
        v = []
        nt = []
        for it in case["items"]:
            fails = self.check_items(it, stats) if it["t"] == "items" else self.check_handler(it, stats)
            for kind, detail in fails:
                v.append(dict(kind=kind, idx=-1, cmd=it["cmd"], detail=detail, mechanism=None))
            letters = [l for l, _ in it["words"]]
            spelled = any(("%s." % "") in it["cmd"] for _ in [0])
            text = it["cmd"]
            dotty = any(tok.endswith(".") or tok.lstrip("+-").startswith(".") for tok in
                        [m.group(2) for m in WORD.finditer(text) if m.group(2)])
            if not fails and len(set(letters)) < len(letters) and dotty:
                nt.append(digest(text))
        return dict(violations=v, nontrivial_digests=nt, stats=stats, sets={}, evaluations=len(case["items"]),
                    sample=case["items"][0])

    @staticmethod
    def check_items(it, stats):
        p = GcodeParser()
        try:
            p.parse(it["cmd"])
            got = [(l, val) for l, val in p.parameterItems() if l != ""]
        except Exception as exc:  # noqa: B902
            return [("parameterItems-raised", repr(exc))]
        stats["parameteritems_evaluations"] += 1
        params = p.parameters or ""
        want = reference_read(params)
        intended = [(l, val) for l, val in it["words"]]
        if want != intended:
            stats["generator_reader_disagree"] += 1       # would be a harness bug; never observed
            return []
        if got != want:
            return [("parameter-items-differ", "parser %r, reference reading %r" % (got, want))]
        # the dictionary view must hold the last value given for each letter, in order of first appearance
        try:
            d = p.parameterDict
        except Exception as exc:  # noqa: B902
            return [("parameterDict-raised", repr(exc))]
        stats["parameterdict_evaluations"] += 1
        ref = collections.OrderedDict()
        for l, val in want:
            ref[l] = val
        mine = [(k, val) for k, val in (d or {}).items() if k != ""]
        if mine != list(ref.items()):
            return [("parameter-dict-differs", "parameterDict %r, last value per letter %r" % (mine, list(ref.items())))]
        return []

    @staticmethod
    def check_handler(it, stats):
        # "covered": one region over the whole plane (every move is suppressed, the handlers still have to act on the words);
        # "disabled": exclusion switched off by the @-command (nothing is suppressed, the position is still tracked)
        mode = it.get("mode", "plain")
        core = Core([["rect", -1e7, -1e7, 1e7, 1e7, "all"]] if mode in ("covered", "disabled") else [], {})
        B = Printer(False)
        try:
            if mode == "disabled":
                core.at("ExcludeRegion", "off")
            for c in it["pre"]:
                core.gcode(c)
                B.execute(c)
            code, _, words = tokenize(it["cmd"])
            if code == "G92":
                # only E is compared (X/Y/Z re-basing is the recorded finding K2): feed the reference the same command
                if any(l in "XYZ" for l, val in words if val is not None):
                    stats["g92_xyz_skipped"] += 1
                    return []
            core.gcode(it["cmd"])
            B.execute(it["cmd"])
            if it.get("twice") and code in ("G0", "G1"):
                # the very same line again (under G91 it moves again): every line is read afresh
                core.gcode(it["cmd"])
                B.execute(it["cmd"])
                stats["handler_same_line_twice"] += 1
        except Exception as exc:  # noqa: B902
            return [("handler-raised", repr(exc))]
        if code in ("G2", "G3") and not B.moves[-1]["src"] == it["cmd"]:
            stats["degenerate_arc_skipped"] += 1
            return []
        stats["handler_evaluations"] += 1
        stats["handler_" + code] += 1
        stats["handler_mode_" + mode] += 1
        hs = core.hooked()
        fails = []
        for k, ax in enumerate("xyz"):
            if hs[ax] is None or abs(hs[ax] - B.pos[k]) > 1e-6 * max(1.0, abs(B.pos[k])):
                fails.append(("handler-ignores-last-value", "tracked %s = %r, the reference (last value per letter) reaches %r"
                              % (ax.upper(), hs[ax], B.pos[k])))
        if abs(hs["e"] - B.e) > 1e-9 * max(1.0, abs(B.e)):
            fails.append(("handler-ignores-last-value", "tracked E = %r, reference %r" % (hs["e"], B.e)))
        if abs(hs["feed"] - B.feed) > 1e-9 * max(1.0, abs(B.feed)):
            fails.append(("handler-ignores-last-value", "tracked feed rate = %r, reference %r" % (hs["feed"], B.feed)))
        if code in ("G2", "G3") and core.arc.log and "R" not in [l for l, val in words if val is not None] and "G91" not in it["pre"]:
            # the centre offsets the arc was planned with are the last I and J values given (a missing one is 0), whatever other
            # words the command carries
            last = dict((l, val) for l, val in words if val is not None)
            a = core.arc.log[-1][0]
            stats["handler_arc_centre_words_checked"] += 1
            if len(a) >= 4 and (abs(a[2] - last.get("I", 0.0)) > 1e-9 or abs(a[3] - last.get("J", 0.0)) > 1e-9):
                fails.append(("handler-ignores-last-value", "the arc was planned with I=%r J=%r, the words say I=%r J=%r"
                              % (a[2], a[3], last.get("I", 0.0), last.get("J", 0.0))))
        return fails[:1]

    def thresholds(self, tier):
        return {"parameteritems_evaluations": 5000, "handler_evaluations": 4000, "handler_G92": 300, "handler_G28": 300}
