"""C09: filtering is total and protocol-conformant (grammar-based fuzzing of command sequences, both entry points)."""
import collections
import io
import time

from .base import Monitor
from ..harness import hook_gcode, Core, DEFAULT_EXT, digest
from ..gen import gen_regions, fmt
from ..refprinter import tokenize

from octoprint_excluderegion.StreamProcessor import StreamProcessor

CODES = ["G0", "G1", "G2", "G3", "G10", "G11", "G20", "G21", "G28", "G90", "G91", "G92", "M206", "G4", "M117", "M204", "M205",
         "M73", "M900", "G5", "G29", "M104", "M999", "T0", "T1", "G38.2", "M204.1", "G1.5", "G0", "G1", "G2", "G3", "G1", "G1"]
LETTERS = "XYZEFIJRSPLT"


def value(rnd, letter):
    k = rnd.random()
    if k < 0.08:
        return ""                      # missing value
    if k < 0.12:
        return rnd.choice(["-", "+"])  # bare sign
    if k < 0.2:
        return rnd.choice(["-0", "+0", "0", "0.0", "-0.0", "00000", ".0"])
    if k < 0.3:
        return rnd.choice([".5", "5.", "-.5", "+5.", "0005", "5.000000", "-5.", "15,5", "0,0", "-3,25", "1.2.3", "4..", "7e", "0x1F"])
    if letter in "IJR":
        big = 10 ** rnd.randint(-3, 4)
        s = fmt(rnd.uniform(-1, 1) * big, rnd.choice([0, 1, 3, 6]))
        return s
    if k < 0.33 and letter in "FZES":
        # very long literals (a generator that prints integers of any size): 19 .. 30 digits, still far from float overflow
        return rnd.choice(["", "-"] if letter != "F" else [""]) + str(rnd.randint(1, 9)) + "0" * rnd.randint(18, 29)
    if k < 0.42:
        e = rnd.randint(-12, 15)
        if e < 0:
            return rnd.choice(["", "-"]) + "0." + "0" * (-e - 1) + str(rnd.randint(1, 9))
        return rnd.choice(["", "-"]) + str(rnd.randint(1, 9)) + "0" * e
    if k < 0.5:
        return str(rnd.randint(-999999999, 999999999)) + "." + str(rnd.randint(0, 999999999))
    return fmt(rnd.uniform(-80, 80), rnd.choice([0, 1, 2, 3, 5]))


def fuzz_command(rnd):
    code = rnd.choice(CODES)
    if rnd.random() < 0.1:
        code = code.lower()
    if rnd.random() < 0.04:
        code = rnd.choice("GM") + str(rnd.randint(0, 999))
    n = rnd.randint(0, 7)
    if code.upper() in ("G2", "G3") and rnd.random() < 0.7:
        letters = list(rnd.choice(["XYIJ", "XYR", "IJ", "XIJE", "XYIJEF", "R", "XYRE", "YJ", "XI"]))
    else:
        letters = [rnd.choice(LETTERS) for _ in range(n)]
    words = []
    for l in letters:
        if rnd.random() < 0.08:
            l = l.lower()
        words.append(l + rnd.choice(["", "", "", " "]) + value(rnd, l.upper()))
    sep = rnd.choice([" ", " ", " ", "", "  "])
    cmd = code + (" " if words else "") + sep.join(words)
    if code.upper() == "M117":
        cmd = "M117 " + rnd.choice(["hello", "Layer 1/2", "E1 X", "", "*", "G1 X1"])
    return cmd


def degenerate_arc(rnd):
    """A positioning move and an arc whose end point lies on (or within 1e-15 .. 1e-9 of) the ray centre -> start, or on the start
    point itself: angular travel of exactly or almost 0 / a full turn."""
    sx, sy = rnd.randint(-20, 40), rnd.randint(-20, 40)
    r = rnd.choice([1, 5, 10, 2.5])
    axis = rnd.choice(["x", "y"])
    eps = rnd.choice(["0", "0.000000000000001", "-0.000000000000001", "0.000000001", "-0.000000001", "0.0000000000000001"])
    k = rnd.choice([0, 1, 2, 0.5])       # end = centre + k*r along the ray (k=1: the start point itself)
    if axis == "x":
        cx, i, j = sx - r, -r, 0
        ex = fmt(cx + k * r, 4)
    else:
        cy, i, j = sy - r, 0, -r
        ey = fmt(cy + k * r, 4)
    # the tiny offset is applied to the coordinate across the ray, relative to a start at 0 on that axis
    if axis == "x":
        pre = "G1 X%s Y0" % fmt(sx, 4)
        arc = "%s X%s Y%s I%s J0" % (rnd.choice(["G2", "G3"]), ex, eps, fmt(i, 4))
    else:
        pre = "G1 X0 Y%s" % fmt(sy, 4)
        arc = "%s X%s Y%s I0 J%s" % (rnd.choice(["G2", "G3"]), eps, ey, fmt(j, 4))
    return [pre, arc]


def exact_semicircle(rnd):
    """R-form arc whose radius is exactly half the chord (as exactly as a float can say it): the centre lies on the chord and the
    square root of the centre computation is taken of (nearly) zero."""
    import math
    sx, sy = rnd.randint(-20, 40), rnd.randint(-20, 40)
    dx, dy = rnd.randint(-30, 30), rnd.randint(-30, 30)
    if dx == 0 and dy == 0:
        dx = 3
    if rnd.random() < 0.3:
        dx, dy = dx / 4.0, dy / 8.0
    r = math.hypot(dx, dy) / 2.0
    r = rnd.choice([r, r, r, math.nextafter(r, 0.0), math.nextafter(r, math.inf), -r])
    return ["G1 X%s Y%s" % (fmt(sx, 4), fmt(sy, 4)),
            "%s X%s Y%s R%s" % (rnd.choice(["G2", "G3"]), fmt(sx + dx, 4), fmt(sy + dy, 4), fmt(r, 17))]


def wrap_line(rnd, cmd, k):
    """A file line around a command: line number, checksum, comment, blanks, EOL."""
    s = cmd
    if rnd.random() < 0.2:
        s = "N%d %s" % (k, s)
        if rnd.random() < 0.8:
            cs = 0
            for b in bytearray(s.encode("utf-8")):
                cs ^= b
            s = s + "*" + str(cs)
    if rnd.random() < 0.2:
        s = " " * rnd.randint(1, 3) + s
    if rnd.random() < 0.25:
        s = s + rnd.choice([" ; comment", ";", " ;G1 X1", "  "])
    return s + rnd.choice(["\n", "\n", "\r\n", ""])


class C09(Monitor):
    prop = "C09"
    quick_cases = 700
    rule = ("(a) structured programs of the end-to-end generator with every feature on, (b) command sequences after G28 over {G0-G3, G10, G11, G20, G21, G28, G90, G91, G92, M206, configured extended codes, unknown "
            "G/M/T, sub-codes, lower case} with 0-7 words from X Y Z E F I J R S P L T in spellings {missing value, bare sign, +, "
            "-0, .5, 5., leading zeros, 1e-12..1e15 in plain decimal, repeated letters}, 0-3 regions, random settings, DEBUG logging on "
            "for a third of the cases; both entry points (handleGcode, StreamProcessor.process_line with comments, N-numbers, "
            "checksums); contract: no exception, result is None / (None,) / non-empty list of non-empty str; process_line returns "
            "None or a non-empty str; one case = one sequence; non-trivial = sequence in which an episode opened and a generated "
            "command was returned; distinct by digest")
    assumptions = ["arc radius (I/J/R) <= 1e4 units (planArc is O(arc length)); X/Y literals <= 18 digits, F/Z/E/S literals up to 30 "
                   "digits - stated bounds", "a command exceeding the 2 s watchdog is counted as slow_case and not judged"]


    def gen_case(self, rnd, tier, k):
        if rnd.random() < 0.35:
            # structured programs (matched retract cycles, retract-on-move, firmware retraction, @-commands, arcs, unit and mode
            # switches): they reach automaton states pure fuzzing rarely composes
            from .motion import mk
            from ..gen import gen_program
            feats = mk(rel=True, inch=rnd.random() < 0.5, arcs=True, arcs_rel=True, at=True, retmove=True, fw=rnd.random() < 0.4,
                       g92e_retracted=True, spell=True, p_inside=0.5, g28mid=True)
            if feats["fw"]:
                feats["fwparam"] = rnd.choice(["", "S1"])
                feats["fwnospace"] = rnd.random() < 0.3
            settings = dict(g90e=rnd.random() < 0.5, ext=dict(DEFAULT_EXT), debug=rnd.random() < 0.33,
                            enter=rnd.choice([None, ["M117 in"]]), exit=rnd.choice([None, ["M117 out"]]))
            regs, g = gen_program(rnd, feats, settings, nsteps=rnd.randint(20, 90))
            return dict(entry="structured", settings=settings, regions=regs, cmds=None, lines=None, steps=g.steps)
        n = rnd.randint(10, 80 if tier == "quick" else 300)
        cmds = ["G28"]
        for _ in range(n):
            if rnd.random() < 0.06:
                cmds += (["G90"] if rnd.random() < 0.7 else []) + (degenerate_arc(rnd) if rnd.random() < 0.6 else exact_semicircle(rnd))
            else:
                cmds.append(fuzz_command(rnd))
        regs = gen_regions(rnd, rnd.choice([0, 1, 2, 3]))
        if rnd.random() < 0.3:
            regs.append(["rect", -100.0, -100.0, 100.0, 100.0, "big"])     # most moves are excluded
        if rnd.random() < 0.06:
            # a region of astronomic size (the API does not bound the numbers): membership tests must not overflow
            m = rnd.choice([1e155, 1e200, 1e300])
            regs.append(rnd.choice([["circ", 0.0, 0.0, m, "huge"], ["circ", m, 0.0, m / 2, "far"], ["rect", -m, -m, m, m, "hugebox"],
                                    ["circ", -3 * m, m, m, "far2"]]))
        ext = dict(DEFAULT_EXT)
        ext.update({"M900": rnd.choice(["merge", "first", "last", "exclude"])})
        settings = dict(g90e=rnd.random() < 0.5, ext=ext, debug=rnd.random() < 0.33,
                        enter=rnd.choice([None, ["M117 in"]]), exit=rnd.choice([None, ["M117 out"]]))
        entry = rnd.choice(["handle", "handle", "stream", "stream", "hook"])
        lines = None
        if entry == "stream":
            lines = [wrap_line(rnd, c, i) for i, c in enumerate(cmds)]
            for _ in range(rnd.randint(0, 4)):
                lines.insert(rnd.randrange(1, len(lines) + 1),
                             rnd.choice(["\n", "   \n", "; only a comment\n", "@ExcludeRegion off\n", "@ExcludeRegion on\r\n",
                                         "@pause\n", "@\n", "garbage text\n", "*\n", "N5\n"]))
        return dict(entry=entry, settings=settings, regions=regs, cmds=cmds, lines=lines)

    def check_case(self, case):
        stats = collections.Counter()
        v = []
        core = Core(case["regions"], case["settings"])
        opened = generated = False
        stats["entry:" + case["entry"]] += 1
        if case["entry"] == "structured":
            for i, st in enumerate(case["steps"]):
                try:
                    if st[0] == "g":
                        gc, sub = hook_gcode(st[1])
                        res = core.handlers.handleGcode(st[1], gc, sub)
                        stats["c09_commands"] += 1
                        ok = (res is None) or (isinstance(res, tuple) and res == (None,)) or \
                             (isinstance(res, list) and len(res) > 0 and all(isinstance(x, str) and x for x in res))
                        if not ok:
                            v.append(dict(kind="result-shape", idx=i, cmd=st[1], detail="handleGcode returned %r" % (res,), mechanism=None))
                            break
                        if isinstance(res, list) and any(x != st[1] for x in res):
                            generated = True
                    elif st[0] == "at":
                        core.handlers.handleAtCommand(core.comm, st[1], st[2])
                        sent = core.comm.take()
                        if not all(isinstance(x, str) and x for x in sent):
                            v.append(dict(kind="result-shape", idx=i, cmd=repr(st), detail="sendCommand received %r" % (sent,), mechanism=None))
                            break
                    elif st[0] == "region":
                        core.add_region(tuple(st[1]))
                except Exception as exc:  # noqa: B902
                    v.append(dict(kind="exception", idx=i, cmd=repr(st), detail="%s: %s" % (type(exc).__name__, exc), mechanism=None))
                    break
                if core.state.excluding:
                    opened = True
        elif case["entry"] in ("handle", "hook"):
            plug = None
            if case["entry"] == "hook":
                # the same sequence through the registered queuing hook of the real plugin object (settings stored, regions added
                # through the API, a print started), called the way OctoPrint calls it
                from ..harness import Plugin, region_payload
                st = dict(case["settings"], clear=False, shrink=False)
                for key in ("enter", "exit"):
                    if isinstance(st.get(key), (list, tuple)):
                        # the way a user types a script: comment-only lines, blank lines, indentation, CRLF
                        st[key] = "; %s script\r\n\r\n  " % key + "\n   ; step\n".join(st[key]) + " ; done\n;\n"
                plug = Plugin(st)
                for r in case["regions"]:
                    plug.api("addExcludeRegion", region_payload(r))
                plug.event("PrintStarted")
                core = plug
            ncmds = len(case["cmds"])
            for i, cmd in enumerate(case["cmds"]):
                if plug is not None and ncmds > 8 and i in (ncmds // 3, ncmds // 3 + 4):
                    plug.event("PrintPaused" if i == ncmds // 3 else "PrintResumed")     # pause / resume do not end the job
                gc, sub = hook_gcode(cmd)
                if gc is None:
                    continue
                t0 = time.time()
                try:
                    if plug is not None:
                        res = plug.h_gcode(plug.comm, "queuing", cmd, None, gc, subcode=sub, tags=set()) if plug.h_gcode else None
                    else:
                        res = core.handlers.handleGcode(cmd, gc, sub)
                except Exception as exc:  # noqa: B902
                    v.append(dict(kind="exception", idx=i, cmd=cmd, detail="%s: %s" % (type(exc).__name__, exc), mechanism=None))
                    break
                if time.time() - t0 > 2.0:
                    stats["slow_case"] += 1
                stats["c09_commands"] += 1
                ok = (res is None) or (isinstance(res, tuple) and res == (None,)) or \
                     (isinstance(res, list) and len(res) > 0 and all(isinstance(x, str) and x for x in res))
                if not ok:
                    v.append(dict(kind="result-shape", idx=i, cmd=cmd, detail="handleGcode returned %r" % (res,), mechanism=None))
                    break
                if isinstance(res, list) and any(x != cmd for x in res):
                    generated = True
                if core.state.excluding:
                    opened = True
        else:
            sp = StreamProcessor(io.BytesIO(b""), core.handlers)
            for i, line in enumerate(case["lines"]):
                t0 = time.time()
                try:
                    res = sp.process_line(line)
                except Exception as exc:  # noqa: B902
                    v.append(dict(kind="exception", idx=i, cmd=line, detail="%s: %s" % (type(exc).__name__, exc), mechanism=None))
                    break
                if time.time() - t0 > 2.0:
                    stats["slow_case"] += 1
                stats["c09_lines"] += 1
                if not (res is None or (isinstance(res, str) and (res or not line))):
                    v.append(dict(kind="result-shape", idx=i, cmd=line, detail="process_line returned %r" % (res,), mechanism=None))
                    break
                if isinstance(res, str) and res != line:
                    generated = True
                if sp.gcodeHandlers.state.excluding:
                    opened = True
        if opened:
            stats["sequences_with_episode"] += 1
        return dict(violations=v, nontrivial=opened and generated and not v, stats=stats, sets={},
                    sample=dict(entry=case["entry"], first=(case["lines"] or case["cmds"] or case.get("steps"))[:12]))

    def thresholds(self, tier):
        return {"c09_commands": 10000, "c09_lines": 10000, "sequences_with_episode": 100}
