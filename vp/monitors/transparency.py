"""C02: a print that never touches an enabled region is forwarded verbatim."""
import collections

from .base import Monitor, viol, common_stats, sample_of
from .motion import MotionMonitor, mk
from ..e2e import Engine
from ..gen import gen_program, gen_wild, gen_regions
from ..refprinter import tokenize
from ..harness import depth_in


class C02(MotionMonitor):
    prop = "C02"
    quick_cases = 1200
    rule = ("three classes: no regions / exclusion disabled by the first command (both with the whole dialect: I/J and R arcs, arcs "
            "under G91, G92 X/Y/Z, M206, G10 P/L, unmatched and mixed retractions, extended codes, unknown codes) / regions present "
            "but every destination and every arc path point kept outside (reference printer B confirms it); both values of "
            "G90-influences-extruder; oracle: output of every step is exactly [cmd] and nothing is sent through comm; "
            "non-trivial = program with >= 1 retract/recover pair and >= 1 configured extended code")
    assumptions = ["class three relies on reference printer B to confirm that no destination lies inside a region; "
                   "a case where B enters a region is a generator error and is discarded (counted)"]
    classes = [(3, "no-regions", {}), (3, "disabled-throughout", {}),
               (4, "avoided", mk(arcs=True, arcs_rel=True, rel=True, inch=True, avoid=True, p_inside=0.0, margin=0.05, g28mid=False,
                                 spell=True, p_arc=0.1)),
               (3, "avoided-with-toggles", mk(arcs=True, arcs_rel=True, rel=True, at=True, avoid=True, p_inside=0.0, margin=0.05,
                                              p_arc=0.2, p_at=0.1, start_rel=0.8)),
               (2, "inside-only-while-disabled", mk(rel=True, at=True, p_inside=0.0, p_inside_disabled=0.6, margin=0.05, p_at=0.15)),
               (1, "avoided-firmware", mk(fw=True, arcs=True, arcs_rel=True, rel=True, avoid=True, p_inside=0.0, retmove=True)),
               (2, "avoided-with-homing", mk(rel=True, inch=True, avoid=True, p_inside=0.0, margin=0.05, g28mid=True, start_rel=0.5,
                                             boost=0.06))]

    def gen_case(self, rnd, tier, k):
        case = self.gen_case_core(rnd, tier, k)
        if rnd.random() < 0.08:
            case = self.as_plugin_case(case)       # the same program through the real plugin object and its registered hooks
        return case

    def gen_case_core(self, rnd, tier, k):
        name, feats = self.pick_class(rnd)
        settings = self.settings_for(rnd, feats)
        settings["g90e"] = rnd.random() < 0.5
        if name in ("no-regions", "disabled-throughout"):
            steps = gen_wild(rnd, rnd.randint(5, 60), hostile=rnd.random() < 0.3)
            regs = []
            if name == "disabled-throughout":
                regs = gen_regions(rnd, rnd.randint(1, 4))
                steps.insert(0, ["at", "ExcludeRegion", rnd.choice(["off", "disable"])])
                if rnd.random() < 0.4:
                    # ... switched off before any region exists; the regions are only defined during the job
                    late, regs = regs, []
                    for r in late:
                        steps.insert(rnd.randrange(1, len(steps) + 1), ["region", list(r)])
            return dict(cls=name, settings=settings, regions=regs, steps=steps)
        if feats.get("fw"):
            feats["fwparam"] = rnd.choice(["", "S1"])
        regs = gen_regions(rnd, rnd.randint(1, 5))
        # the generated start position (0,0) after G28 must not be covered either: Z-only moves there would be excluded
        regs = [r for r in regs if not (r[0] == "rect" and min(r[1], r[3]) <= 0.5)]
        if rnd.random() < 0.5:
            # sentinel slabs far outside the bed: the tool never goes there, but a wildly wrong tracked position does
            regs += [["rect", -5000.0, -5000.0, -60.0, 5000.0, "far-left"], ["rect", 120.0, -5000.0, 5000.0, 5000.0, "far-right"],
                     ["rect", -5000.0, -5000.0, 5000.0, -60.0, "far-below"], ["rect", -5000.0, 120.0, 5000.0, 5000.0, "far-above"]]
        regs2, g = gen_program(rnd, feats, settings, regions=regs)
        return dict(cls=name, settings=settings, regions=regs2, steps=g.steps, tags=sorted(g.tags))

    def check_case(self, case):
        stats = collections.Counter()
        sets = collections.defaultdict(set)
        if case.get("plugin"):
            tr = self.run_plugin_case(case)
            stats["cases_through_the_registered_plugin_hooks"] += 1
        else:
            tr = Engine(case).run()
        common_stats(tr, stats, sets)
        stats["class:" + case["cls"]] += 1
        v = []
        # the engine classifies an arc by the points the filter itself planned; for this property an arc counts as entering a
        # region only if the reference printer's own path (0.05 mm samples of the commanded arc) comes within 0.1 mm of one
        def entered_by(r):
            if not r.get("dest_in"):
                return False
            if r.get("move_kind") == "arc" and r.get("b_moves"):
                pts = [q for m in r["b_moves"] for q in (m.get("pts") or [])]
                if pts and max(depth_in(list(r["regs"]), q[0], q[1]) for q in pts) < -0.1:
                    stats["c02_arcs_clear_by_reference_but_planned_inside"] += 1
                    return False
            return True
        # a program is one job: with an earlier, abandoned run in the history only the steps of the last job are judged
        starts = [r["idx"] for r in tr.steps if r["kind"] == "event" and r.get("event") == "PrintStarted"]
        job = [r for r in tr.steps if not starts or r["idx"] > starts[-1]]
        if len(starts) > 1:
            stats["c02_jobs_after_an_abandoned_run"] += 1
        entered = any(entered_by(r) for r in job)
        if entered or tr.truncated:
            stats["discarded_generator_entered_region_or_truncated"] += 1
            return dict(violations=[], nontrivial=False, stats=stats, sets=sets, sample=None)
        retract = recover = ext = 0
        for r in job:
            if r["kind"] == "g":
                stats["c02_commands_compared"] += 1
                if r["out"] != [r["cmd"]]:
                    v.append(viol(tr, r, "not-forwarded-verbatim", "input %r -> output %r" % (r["cmd"], r["out"])))
                code = r.get("code")
                if code in (case["settings"].get("ext") or {"G4": 1, "M204": 1, "M205": 1, "M117": 1, "M73": 1}):
                    ext += 1
                db = r["B_after"]["fil"] - r["B_before"]["fil"]
                if code == "G10" or (code in ("G0", "G1") and not r.get("is_move") and db < 0):
                    retract += 1
                if code == "G11" or (code in ("G0", "G1") and not r.get("is_move") and db > 0):
                    recover += 1
            elif r["kind"] == "at":
                if r["sent"]:
                    v.append(viol(tr, r, "at-command-sent-commands", "sent %r" % (r["sent"],)))
        if tr.exc is not None:
            v.append(dict(kind="exception", idx=tr.exc[0], cmd=tr.exc[1], detail=tr.exc[2], mechanism=None))
        if case["cls"].startswith("avoided"):
            # the known tracking findings cannot occur here (features omitted); with none of them the mechanism is None
            pass
        else:
            for x in v:
                x["mechanism"] = None     # classes one and two do not depend on tracking at all
        return dict(violations=v, nontrivial=(retract and recover and ext and not v), stats=stats, sets=sets,
                    sample=sample_of(case, tr))

    def thresholds(self, tier):
        return {"c02_commands_compared": 5000, "class:avoided": 50, "class:no-regions": 50, "class:disabled-throughout": 50,
                "class:avoided-with-toggles": 30}
