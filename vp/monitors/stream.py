"""C20: offline stream filtering equals live filtering (twin handlers) and never touches the live state."""
import collections
import copy
import io
import re

from .base import Monitor
from .motion import mk
from ..harness import Core, FakeComm, normalise, DEFAULT_EXT, DEFAULT_AT, hook_gcode, apply_core_settings, default_settings
from ..gen import gen_program, gen_regions, wild_command
from ..refprinter import tokenize

from octoprint_excluderegion.StreamProcessor import StreamProcessor
from octoprint_excluderegion.GcodeHandlers import GcodeHandlers

LEAD = re.compile(r"^[ \t]*(?:[Nn]\d+[ \t]*)?")
TAILCS = re.compile(r"[ \t]*\*\d+[ \t]*$")


def strip_comment(line):
    """What OctoPrint does before the queuing hooks see a line: cut at the first unescaped ';'."""
    out = []
    escaped = False
    for c in line:
        if c == ";" and not escaped:
            break
        out.append(c)
        escaped = (c == "\\") and not escaped
    return "".join(out)


def extract(line):
    """Harness's own line reader: (kind, payload) with kind in {'blank', 'gcode', 'at', 'other'}."""
    body = strip_comment(line.rstrip("\r\n")).strip(" \t")     # OctoPrint: strip_comment(line).strip()
    if not body:
        return "blank", None
    if body.startswith("@"):
        parts = body.split(None, 1)
        return "at", (parts[0][1:], parts[1] if len(parts) > 1 else "")
    m = LEAD.match(body)
    cmd = TAILCS.sub("", body[m.end():]) if m else body
    if tokenize(cmd)[0] is not None and re.match(r"^[GgMmTt][ ]*\d", cmd):
        return "gcode", cmd.strip(" \t")
    return "other", body


def canon(cmd):
    code, sub, words = tokenize(cmd)
    if code is None:
        return ("raw", cmd.strip())
    if code in ("M117",):
        return (code, sub, " ".join(cmd.split()[1:]))
    return (code, sub, tuple(words))


def deep(obj, depth=0, skip=("_logger",)):
    """Plain-structure image of an object graph for before/after comparison."""
    if depth > 8:
        return repr(obj)
    if isinstance(obj, (str, int, float, bool, type(None))):
        return obj
    if isinstance(obj, (list, tuple)):
        return [deep(x, depth + 1) for x in obj]
    if isinstance(obj, dict):
        return [(repr(k), deep(v, depth + 1)) for k, v in obj.items()]
    if hasattr(obj, "pattern") and hasattr(obj, "match"):
        return ("regex", obj.pattern)
    if hasattr(obj, "__dict__"):
        items = dict(obj.__dict__)
        # containers that live on the class (a dict or list in a class body is shared by every instance, copies included)
        for klass in type(obj).__mro__:
            for k, v in vars(klass).items():
                if isinstance(v, (dict, list, set)) and not k.startswith("__") and k not in items:
                    items["<class>." + k] = v
        return (type(obj).__name__, [(k, deep(v, depth + 1)) for k, v in sorted(items.items()) if k not in skip])
    return repr(obj)


def checksum(s):
    cs = 0
    for b in bytearray(s.encode("utf-8")):
        cs ^= b
    return cs


class C20(Monitor):
    prop = "C20"
    quick_cases = 2000
    rule = ("a live state reached by a random program prefix (possibly mid-episode, retracted, disabled, inch/relative), then "
            "StreamProcessor fed the rest of the program as a file (comments, N-numbers with checksums, blank / whitespace-only / "
            "comment-only lines, @-commands, leading blanks and tabs, LF or CRLF, last line with or without terminator) while a twin "
            "state + handlers pair that lived through the very same prefix receives the commands a live print would (comment, line "
            "number, checksum, surrounding blanks stripped); half of the cuts are placed where a recovery is owed or deferred codes "
            "are pending; the live print may go on for a few commands between the creation of the processor and its first line; per line: unchanged => byte-identical line, suppressed => None, commands => same "
            "command sequence joined and terminated by the file's EOL; afterwards the live state equals its snapshot; non-trivial = "
            "file in which an episode was open and a line was rewritten; distinct by digest")
    assumptions = ["commands are compared after tokenisation (the processor passes a normalised command string to the handlers)",
                   "the live side is given the command of a numbered line without its N-number and checksum; OctoPrint itself reports "
                   "no code to the hook for such a line (its files are not expected to carry line numbers), so for those lines the "
                   "comparison is with an idealised live print"]


    def gen_case(self, rnd, tier, k):
        feats = mk(rel=rnd.random() < 0.4, inch=rnd.random() < 0.3, arcs=True, at=True, fw=rnd.random() < 0.4, g92e_retracted=True)
        if feats["fw"]:
            feats["fwparam"] = rnd.choice(["", "S1"])
        ext = dict(DEFAULT_EXT)
        settings = dict(g90e=rnd.random() < 0.3, ext=ext, enter=rnd.choice([None, ["M117 in"]]), exit=rnd.choice([None, ["M117 out", "M400"]]))
        regs, g = gen_program(rnd, feats, settings, nsteps=rnd.randint(10, 70))
        steps = g.steps
        if rnd.random() < 0.15 and len(steps) > 12:
            act = rnd.choice(["disable_exclusion", "enable_exclusion"])
            new_at = [list(a) for a in DEFAULT_AT] + [["Skip", None, act]]
            a = rnd.randrange(2, len(steps) // 2)
            b = rnd.randrange(a + 1, len(steps) - 3)
            steps.insert(b, ["settings", dict(settings, at=new_at)])
            steps.insert(a, ["at", "Skip", "part 3"])
            for _ in range(rnd.randint(1, 3)):
                steps.insert(rnd.randrange(b + 2, len(steps) + 1), ["at", "Skip", "part 3"])
        if rnd.random() < 0.08 and len(steps) > 10:
            # a workspace offset, and its reset by the sub-coded form, somewhere in the program
            a = rnd.randrange(2, len(steps) - 4)
            b = rnd.randrange(a + 1, len(steps) - 1)
            steps.insert(b, ["g", rnd.choice(["G92.1", "G92.1", "G92.1 X0"])])
            steps.insert(a, ["g", "G92 X%d Y%d" % (rnd.choice([0, 5, 10, -20]), rnd.choice([0, 5, 10, -20]))])
        cut = rnd.randint(1, max(1, len(steps) - 3))
        eol = rnd.choice(["\n", "\n", "\r\n"])
        lines = []
        n = 0
        starts = []          # starts[i]: index into lines of the first line made from step i
        for st in steps:
            starts.append(len(lines))
            if st[0] == "g":
                cmd = st[1]
                if rnd.random() < 0.05:
                    cmd = wild_command(rnd)
                elif rnd.random() < 0.04:
                    # display text with escaped characters: "\\;" is text, not a comment; after "\\\\" a ';' starts one
                    cmd = rnd.choice(["M117 Layer %d\\; 40%% done", "M117 a\\\\;b c %d", "M117 %d\\;\\;x", "M117 path c:\\\\tmp %d",
                                      "M117 %d \\; ; real comment", "M117.0 sub-coded %d", "M204.0 S%d", "M117.1 sub-coded %d"]) % rnd.randint(0, 99)
                elif rnd.random() < 0.04 and " " in cmd:
                    cmd = cmd.replace(" ", rnd.choice(["\t", " \t", "  "]))
                elif rnd.random() < 0.05:
                    cmd = re.sub(r"^([GM])(\d+)", lambda m: m.group(1) + rnd.choice(["0", "0", "00"]) + m.group(2), cmd)
                s = cmd
                if rnd.random() < 0.15:
                    n += 1
                    s = "N%d %s" % (n, s)
                    s = s + rnd.choice(["", " "]) + "*" + str(checksum(s))
                if rnd.random() < 0.15:
                    s = "".join(rnd.choice(" \t" if rnd.random() < 0.3 else " ") for _ in range(rnd.randint(1, 4))) + s
                if rnd.random() < 0.2:
                    s = s + rnd.choice([" ; a comment", ";x", " ;", "   ", "\t", "\t; tabbed comment"])
                lines.append(s + eol)
            elif st[0] == "at":
                sep = rnd.choice([" ", " ", " ", "\t", "  ", " \t"])
                lines.append(rnd.choice(["", "", "", " ", "\t"]) + "@%s%s%s%s" % (st[1], sep, st[2], rnd.choice(["", " ; c", "\t"])) + eol)
            if rnd.random() < 0.08:
                lines.append(rnd.choice(["", "   ", "; comment only", "  ; indented comment", "hello world", "ok"]) + eol)
        if lines and rnd.random() < 0.3:
            lines[-1] = lines[-1][:-len(eol)]
        # the live print goes on for a few commands between the creation of the processor and its first line
        meanwhile = [s for s in steps[cut:cut + rnd.choice([0, 0, 1, 3, 6])] if s[0] in ("g", "at")] if rnd.random() < 0.4 else []
        return dict(settings=settings, regions=regs, steps=[s if s[0] in ("g", "at", "settings") else None for s in steps], cut=cut,
                    starts=starts,
                    lines=lines, eol=eol, meanwhile=meanwhile, adaptive=rnd.random() < 0.5)

    def check_case(self, case):
        stats = collections.Counter()
        v = []
        def drive(core, st):
            if st[0] == "g":
                core.gcode(st[1])
            elif st[0] == "settings":
                # a settings save during the live print: the state is given new tables (the handlers object stays)
                apply_core_settings(core.state, dict(default_settings(), **st[1]))
            else:
                core.at(st[1], st[2])
        cut = case["cut"]
        if case.get("adaptive"):
            # prefer a cut where the live state carries something a copy can lose: a retraction whose recovery was swallowed
            # inside a region and is still owed, or pending deferred commands (found by a scouting run of the same program)
            scout = Core(case["regions"], case["settings"])
            good = []
            try:
                for i, st in enumerate(case["steps"][:-2]):
                    if st is not None:
                        drive(scout, st)
                    lr = scout.state.lastRetraction
                    if i >= 1 and ((lr is not None and getattr(lr, "recoverExcluded", False)) or scout.state.pendingCommands):
                        good.append(i + 1)
            except Exception:  # noqa: B902
                pass
            if good:
                cut = good[len(good) // 2]
                stats["c20_cut_at_owed_recovery_or_pending"] += 1
        lines = case["lines"][case["starts"][cut]:] if cut < len(case["starts"]) else []
        live = Core(case["regions"], case["settings"])
        try:
            for st in case["steps"][:cut]:
                if st is not None:
                    drive(live, st)
        except Exception as exc:  # noqa: B902
            stats["prefix_raised"] += 1
            return dict(violations=[], nontrivial=False, stats=stats, sets={}, sample=None)
        if live.state.excluding:
            stats["live_state_mid_episode"] += 1
        live.arc.undo()
        sp = StreamProcessor(io.BytesIO(b""), live.handlers)
        # the twin is what the live print itself would be: a second state + handlers pair that lived through the very same prefix
        # (not a copy of the live objects - copying is what the processor does, and a fault in it must not be mirrored here)
        twin_core = Core(case["regions"], case["settings"])
        twin_core.arc.undo()
        for st in case["steps"][:cut]:
            if st is not None:
                drive(twin_core, st)
        twin = twin_core.handlers
        comm = FakeComm(False)
        # "all live states the processor is created from": the state at creation counts, whatever the print does afterwards
        try:
            for st in case.get("meanwhile") or []:
                drive(live, st)
                stats["c20_live_commands_between_creation_and_first_line"] += 1
        except Exception:  # noqa: B902
            stats["prefix_raised"] += 1
        before = deep(live.state)
        eol = case["eol"]
        seen_eol = False
        episode = rewritten = False
        for i, line in enumerate(lines):
            kind, payload = extract(line)
            if line.endswith(("\n", "\r")):
                seen_eol = True
            try:
                got = sp.process_line(line)
            except Exception as exc:  # noqa: B902
                v.append(dict(kind="exception", idx=i, cmd=line, detail="%s: %s" % (type(exc).__name__, exc), mechanism=None))
                break
            stats["c20_lines"] += 1
            stats["c20_lines_" + kind] += 1
            if kind in ("blank", "other"):
                want = ("same",)
            elif kind == "gcode":
                gc, sub = hook_gcode(payload)
                res = twin.handleGcode(payload, gc, sub)
                want = ("same",) if res is None else ("cmds", normalise(res, payload))
            else:
                comm.take()
                handled = twin.handleAtCommand(comm, payload[0], payload[1])
                sent = comm.take()
                want = ("same",) if not handled else ("cmds", sent)
            if twin.state.excluding:
                episode = True
            if want[0] == "same":
                if got != line:
                    v.append(dict(kind="untouched-line-altered", idx=i, cmd=line, detail="live filtering leaves the command unchanged, "
                                  "process_line returned %r" % (got,), mechanism=None))
                    break
            elif not want[1]:
                stats["c20_suppressed"] += 1
                if got is not None:
                    v.append(dict(kind="suppressed-line-emitted", idx=i, cmd=line, detail="live filtering suppresses the command, "
                                  "process_line returned %r" % (got,), mechanism=None))
                    break
            else:
                stats["c20_rewritten"] += 1
                rewritten = True
                use = eol if seen_eol else "\n"
                if not isinstance(got, str) or not got.endswith(use):
                    v.append(dict(kind="missing-line-ending", idx=i, cmd=line, detail="expected commands %r terminated by %r, got %r"
                                  % (want[1], use, got), mechanism=None))
                    break
                parts = got[:-len(use)].split(use)
                if [canon(c) for c in parts] != [canon(c) for c in want[1]] or any(("\n" in c or "\r" in c) for c in parts):
                    v.append(dict(kind="command-sequence-differs", idx=i, cmd=line, detail="live hooks send %r, the processor emitted %r"
                                  % (want[1], got), mechanism=None))
                    break
        after = deep(live.state)
        stats["c20_isolation_checks"] += 1
        if after != before:
            v.append(dict(kind="live-state-modified", idx=-1, cmd=None, detail="the live state changed while the file was filtered",
                          mechanism=None))
        return dict(violations=v, nontrivial=episode and rewritten and not v, stats=stats, sets={},
                    sample=dict(eol=repr(eol), cut=cut, lines=lines[:10]))

    def thresholds(self, tier):
        return {"c20_lines": 5000, "c20_rewritten": 300, "c20_suppressed": 300, "c20_lines_blank": 50, "c20_lines_at": 50,
                "live_state_mid_episode": 20}
