"""C12 (excluded area never shrinks during an active print) and C13 (registry integrity and client notification)."""
import collections
import math
from fractions import Fraction as F

from .base import Monitor, unrank_sequence, sequence_space
from .plugin_hist import EV_START, EV_END, EV_FILE, EV_NEUTRAL
from ..harness import Plugin, digest, setting_bool, RAW_BOOLS

EVENT = "ExcludedRegionsChanged"


def payload_of(shape, rid=None):
    kind, p = shape
    if kind == "rect":
        d = dict(type="RectangularRegion", x1=p[0], y1=p[1], x2=p[2], y2=p[3])
    else:
        d = dict(type="CircularRegion", cx=p[0], cy=p[1], r=p[2])
    if rid is not None:
        d["id"] = rid
    return d


def model_entry(data):
    """What the region list must show for an accepted payload (floats, ordered corners)."""
    if data["type"] == "RectangularRegion":
        x1, y1, x2, y2 = (float(data.get(k, 0)) for k in ("x1", "y1", "x2", "y2"))
        return dict(type="RectangularRegion", x1=min(x1, x2), y1=min(y1, y2), x2=max(x1, x2), y2=max(y1, y2), id=data.get("id"))
    return dict(type="CircularRegion", cx=float(data.get("cx", 0)), cy=float(data.get("cy", 0)), r=float(data.get("r", 0)),
                id=data.get("id"))


def rand_shape(rnd):
    if rnd.random() < 0.5:
        x, y = round(rnd.uniform(0, 50), 1), round(rnd.uniform(0, 50), 1)
        w, h = round(rnd.uniform(0, 20), 1), round(rnd.uniform(0, 20), 1)
        q = rnd.random()
        if q < 0.08:
            w = 0.0          # a segment: no area, but its points are excluded (closed set)
        elif q < 0.16:
            h = 0.0
        elif q < 0.19:
            w = h = 0.0
        return ("rect", [x, y, x + w, y + h])
    r = round(rnd.uniform(0, 12), 1)
    if rnd.random() < 0.06:
        r = -r           # the API does not validate geometry: a negative radius is an empty region
    return ("circ", [round(rnd.uniform(5, 50), 1), round(rnd.uniform(5, 50), 1), r])


def enter_commands(shape, first):
    """G-code that homes (first time) and moves the tool to the centre of a finite region: an exclusion episode is open then."""
    kind, p = shape
    if not all(math.isfinite(float(v)) for v in p):
        return []
    if kind == "rect":
        x, y = (float(p[0]) + float(p[2])) / 2.0, (float(p[1]) + float(p[3])) / 2.0
    else:
        if float(p[2]) < 0:
            return []
        x, y = float(p[0]), float(p[1])
    return ([["g", "G28"]] if first else []) + [["g", "G1 X%.3f Y%.3f F3000" % (x, y)]]


def rand_shape_c13(rnd):
    """C13 is about the list, not the geometry: now and then an open-ended region (an infinite coordinate, which JSON clients write
    as 1e999) - equal to itself, so the list model can still be compared."""
    kind, p = rand_shape(rnd)
    if rnd.random() < 0.05:
        p = list(p)
        p[rnd.randrange(len(p))] = rnd.choice([float("inf"), float("-inf")]) if kind == "rect" else float("inf")
    return (kind, p)


# ======================================================================================= C13

class C13(Monitor):
    prop = "C13"
    quick_cases = 2500
    rule = ("sequences of API requests {add with/without id, duplicate id, update of an unknown id, update with a changed type, bad "
            "type, delete of an unknown id, delete, each of them also as anonymous user} interleaved with file selection, print "
            "start and print end events under both clear-after-print settings; a list model (append / replace in place / remove) "
            "predicts the region list; every notification payload and every GET body must equal the current list in order; "
            "non-trivial = history with at least one rejection of each kind (409 duplicate, 409 unknown id, 400 bad type, 403); "
            "distinct by digest")
    assumptions = ["on_api_command is called directly (OctoPrint's own request validation is not part of the plugin)"]


    R1 = dict(type="RectangularRegion", x1=10, y1=10, x2=20, y2=20)
    C1 = dict(type="CircularRegion", cx=15, cy=15, r=20)
    LETTERS = [["api", "addExcludeRegion", dict(R1, id="a"), False], ["api", "addExcludeRegion", dict(C1, id="a"), False],
               ["api", "addExcludeRegion", dict(R1, id="b"), False], ["api", "addExcludeRegion", dict(C1), False],
               ["api", "updateExcludeRegion", dict(C1, id="a"), False], ["api", "updateExcludeRegion", dict(R1, id="zz"), False],
               ["api", "updateExcludeRegion", dict(R1, id="a", type="Blob"), False], ["api", "deleteExcludeRegion", dict(id="a"), False],
               ["api", "deleteExcludeRegion", dict(id="zz"), False], ["api", "deleteExcludeRegion", dict(id="a"), True],
               ["event", EV_FILE], ["event", EV_START], ["event", "PrintDone"], ["get"], ["at", "ExcludeRegion", "off"]]
    exhaustive_what = ("small scope: every sequence of up to 3 (quick) / 4 (thorough) steps over {add a, add a again (other type), add b, "
                       "add without id, update a (type change, covering), update unknown, bad type, delete a, delete unknown, anonymous "
                       "delete, file selected, print started, print done, GET, a disable @-command} under (clear, shrink) = (on, off) and (off, on)")

    def gen_case(self, rnd, tier, k):
        if k % 4 != 0:
            maxlen = 3 if tier == "quick" else 4
            total = 2 * sequence_space(len(self.LETTERS), maxlen)
            e = (k - k // 4 - 1) * getattr(self, "nshards", 1) + getattr(self, "shard", 0)
            if e < total:
                seq = unrank_sequence(e // 2, len(self.LETTERS), maxlen)
                steps = [[x if not isinstance(x, dict) else dict(x) for x in self.LETTERS[l]] for l in seq]
                return dict(settings=dict(clear=bool(e % 2), shrink=not bool(e % 2)), steps=steps, small=e, small_total=total)
        steps = []
        ids = []
        n = 0
        settings = dict(clear=rnd.random() < 0.5, shrink=rnd.random() < 0.5) if rnd.random() < 0.8 else \
            dict(clear=rnd.choice(RAW_BOOLS), shrink=rnd.choice(RAW_BOOLS))
        settings["debug"] = rnd.random() < 0.33
        first = dict(settings)
        shape_of = {}
        homed = [False]
        for _ in range(rnd.randint(8, 45)):
            t = rnd.random()
            anon = rnd.random() < 0.12
            if shape_of and rnd.random() < 0.08:
                # the job's G-code takes the tool into one of the regions (if a job is running: an episode opens), or out again
                q = rnd.random()
                if q < 0.6:
                    cmds = enter_commands(shape_of[rnd.choice(sorted(shape_of, key=repr))], True)
                elif q < 0.8:
                    cmds = [["g", "G28"], ["g", "G1 X190 Y190 F3000"]]
                else:
                    # a job that has homed one axis only so far (the other coordinates are still unknown to the filter)
                    cmds = [["g", rnd.choice(["G28 X", "G28 Y", "G28 Z", "G28 X0"])]]
                if cmds:
                    steps.extend(cmds)
                if rnd.random() < 0.2:
                    steps.append(["script", "gcode", "afterPrintDone"])
            if t < 0.25:
                n += 1
                rid = rnd.choice(["id%d" % n, "id%d" % n, None, n, "", 0])      # falsy but non-null ids are ids too
                _shape = rand_shape_c13(rnd)
                if ids and rnd.random() < 0.15:
                    # an id that differs from an existing one in letter case / type only: a different id
                    other = rnd.choice(ids)
                    rid = (other.upper() if other.upper() != other else other.title()) if isinstance(other, str) and other \
                        else (str(other) if isinstance(other, int) else "ID%d" % n)
                _pl = payload_of(_shape, rid)
                if rnd.random() < 0.1:
                    # a coordinate left out of the request: it defaults to 0 (the list shows it all the same)
                    _pl.pop(rnd.choice([k for k in _pl if k not in ("type", "id")]))
                steps.append(["api", "addExcludeRegion", _pl, anon])
                if rid is not None and not anon:
                    ids.append(rid)
                    shape_of.setdefault(rid, _shape)
            elif t < 0.35 and ids:
                steps.append(["api", "addExcludeRegion", payload_of(rand_shape_c13(rnd), rnd.choice(ids)), anon])
            elif t < 0.45 and ids:
                steps.append(["api", "updateExcludeRegion", payload_of(rand_shape_c13(rnd), rnd.choice(ids)), anon])
            elif t < 0.5:
                # a point-shaped region replaced by the other type at the very same point (each "contains" the other), and an
                # update that repeats the entry verbatim
                n += 1
                rid = "pt%d" % n
                x, y = float(rnd.randint(0, 40)), float(rnd.randint(0, 40))
                a, b = ("rect", [x, y, x, y]), ("circ", [x, y, 0.0])
                if rnd.random() < 0.5:
                    a, b = b, a
                steps.append(["api", "addExcludeRegion", payload_of(a, rid), False])
                steps.append(["api", "updateExcludeRegion", payload_of(b, rid), False])
                if rnd.random() < 0.5:
                    steps.append(["api", "updateExcludeRegion", payload_of(b, rid), False])
                ids.append(rid)
            elif t < 0.57:
                steps.append(["api", "updateExcludeRegion", payload_of(rand_shape_c13(rnd), rnd.choice(["nope", "id999", None])), anon])
            elif t < 0.64:
                d = payload_of(rand_shape_c13(rnd), rnd.choice(ids) if ids and rnd.random() < 0.5 else "zz")
                d["type"] = rnd.choice(["TriangularRegion", "", None, "rectangularregion"])
                steps.append(["api", rnd.choice(["addExcludeRegion", "updateExcludeRegion"]), d, anon])
            elif t < 0.66:
                steps.append(["api", rnd.choice(["renameExcludeRegion", "", "addexcluderegion"]),
                              payload_of(rand_shape_c13(rnd), rnd.choice(ids) if ids and rnd.random() < 0.5 else "q%d" % n), anon])
            elif t < 0.72:
                steps.append(["api", "deleteExcludeRegion", dict(id=rnd.choice(["nope", None] + ids[-1:])), anon])
            elif t < 0.8 and ids:
                steps.append(["api", "deleteExcludeRegion", dict(id=rnd.choice(ids)), anon])
            elif t < 0.85:
                steps.append(["event", EV_FILE])
            elif t < 0.9:
                steps.append(["event", EV_START])
                homed[0] = False
            elif t < 0.95:
                steps.append(["event", rnd.choice(EV_END)])
            elif t < 0.96:
                steps.append(["event", rnd.choice(EV_NEUTRAL)])
            elif t < 0.98:
                steps.append(["at", "ExcludeRegion", rnd.choice(["off", "on", "disable"])])
            else:
                settings = dict(clear=rnd.choice(RAW_BOOLS), shrink=rnd.choice(RAW_BOOLS))
                if rnd.random() < 0.2:
                    settings["malformed"] = rnd.choice(["at-regex", "ext-key"])
                steps.append(["settings", dict(settings)])
            if rnd.random() < 0.2:
                steps.append(["get"])
        return dict(settings=first, steps=steps)

    def check_case(self, case):
        stats = collections.Counter()
        v = []
        sets = collections.defaultdict(set)
        if "small" in case:
            sets["exhaustive_indices"].add(case["small"])
            stats["exhaustive_of_%d" % case["small_total"]] += 1
        p = Plugin(case["settings"])
        p.pm.take()
        if case["settings"].get("debug"):
            stats["c13_cases_with_debug_logging"] += 1
        model = []
        active = False
        clear = setting_bool(case["settings"].get("clear"))
        shrink = setting_bool(case["settings"].get("shrink"))
        rejections = set()

        def bad(i, st, kind, detail):
            v.append(dict(kind=kind, idx=i, cmd=repr(st)[:200], detail=detail, mechanism=None))
        for i, st in enumerate(case["steps"]):
            before = p.regions()
            if before != model:
                bad(i, st, "list-differs-from-model", "before the step: plugin %r, model %r" % (before, model))
                break
            expect_change = None
            if st[0] == "api":
                cmd, data, anon = st[1], st[2], st[3]
                try:
                    resp = p.api(cmd, data, anon=anon)
                except Exception as exc:  # noqa: B902
                    bad(i, st, "request-raised", repr(exc))
                    break
                stats["c13_requests"] += 1
                if anon:
                    want = ("reject", 403)
                elif cmd == "deleteExcludeRegion":
                    if active and not shrink:
                        want = ("reject", 409)
                    else:
                        idx = [k for k, r in enumerate(model) if r["id"] == data.get("id")]
                        if idx:
                            del model[idx[0]]
                        want = ("ok",)
                elif data.get("type") not in ("RectangularRegion", "CircularRegion"):
                    want = ("reject", 400)
                elif cmd not in ("addExcludeRegion", "updateExcludeRegion"):
                    want = ("reject", 400)          # unknown command
                elif cmd == "addExcludeRegion":
                    if data.get("id") is not None and any(r["id"] == data["id"] for r in model):
                        want = ("reject", 409)
                    else:
                        ent = model_entry(data)
                        want = ("ok-add", ent)
                else:
                    idx = [k for k, r in enumerate(model) if r["id"] == data.get("id")] if data.get("id") is not None else []
                    if not idx:
                        want = ("reject", 409)
                    elif active and not shrink:
                        want = ("either", idx[0], model_entry(data))     # geometry decides (C12); both outcomes are checked for consistency
                    else:
                        model[idx[0]] = model_entry(data)
                        want = ("ok",)
                if want[0] == "reject":
                    rejections.add((want[1], cmd.replace("ExcludeRegion", "")) if want[1] == 409 else want[1])
                    stats["c13_rejected_%d" % want[1]] += 1
                    if not (isinstance(resp, tuple) and len(resp) == 2 and resp[1] == want[1]):
                        bad(i, st, "request-not-rejected", "expected status %d, got %r" % (want[1], resp))
                elif want[0] == "ok":
                    if resp is not None:
                        bad(i, st, "valid-request-refused", "response %r" % (resp,))
                elif want[0] == "ok-add":
                    if resp is not None:
                        bad(i, st, "valid-request-refused", "response %r" % (resp,))
                    else:
                        now = p.regions()
                        ent = want[1]
                        if ent["id"] is None and len(now) == len(model) + 1:
                            ent["id"] = now[-1]["id"]        # generated id: must be new
                            if any(r["id"] == ent["id"] for r in model) or ent["id"] is None:
                                bad(i, st, "generated-id-not-unique", repr(ent["id"]))
                        model.append(ent)
                else:
                    if resp is None:
                        model[want[1]] = want[2]
                    elif not (isinstance(resp, tuple) and resp[1] == 409):
                        bad(i, st, "unexpected-response", repr(resp))
            elif st[0] == "event":
                p.event(st[1], st[2] if len(st) > 2 else None)
                if st[1] == EV_START:
                    active = True
                elif st[1] in EV_END:
                    active = False
                    if clear:
                        model = []
                elif st[1] == EV_FILE:
                    model = []
            elif st[0] == "settings":
                p.write_settings(st[1])
                clear, shrink = setting_bool(st[1].get("clear")), setting_bool(st[1].get("shrink"))
                stats["c13_settings_saves"] += 1
            elif st[0] == "at":
                p.at(st[1], st[2])
            elif st[0] == "g":
                try:
                    p.gcode(st[1])
                except Exception:  # noqa: B902
                    stats["c13_gcode_raised"] += 1          # e.g. a move before homing: totality is C09's business
                if p.state.excluding:
                    stats["c13_steps_with_open_episode"] += 1
            elif st[0] == "script":
                try:
                    p.script(st[1], st[2])
                except Exception:  # noqa: B902
                    stats["c13_gcode_raised"] += 1
            elif st[0] == "get":
                body = p.api_get()
                stats["c13_get_checked"] += 1
                if body != dict(excluded_regions=model):
                    bad(i, st, "get-differs-from-list", "GET %r, list %r" % (body, model))
            after = p.regions()
            msgs = p.pm.take()
            if after != model:
                bad(i, st, "list-differs-from-model", "after the step: plugin %r, model %r" % (after, model))
            ids = [r.get("id") for r in after]
            if any(ids.count(x) > 1 for x in ids):
                bad(i, st, "duplicate-ids", repr(ids))
            if after != before:
                stats["c13_list_changes"] += 1
                if len(msgs) != 1:
                    bad(i, st, "change-without-exactly-one-notification", "%d notifications for a change of the list" % len(msgs))
            for ident, m in msgs:
                stats["c13_notifications_checked"] += 1
                if m.get("event") != EVENT or m.get("excluded_regions") != after:
                    bad(i, st, "notification-payload-differs", "payload %r, list %r" % (m, after))
            if v:
                break
        kinds = set(r if isinstance(r, int) else r[0] for r in rejections)
        nontrivial = {400, 403, 409} <= kinds and (409, "add") in rejections and (409, "update") in rejections
        return dict(violations=v, nontrivial=nontrivial and not v, stats=stats, sets=sets,
                    sample=dict(settings=case["settings"], steps=case["steps"][:12]))

    def thresholds(self, tier):
        return {"c13_requests": 3000, "c13_list_changes": 500, "c13_notifications_checked": 500, "c13_get_checked": 300,
                "c13_rejected_403": 100, "c13_rejected_409": 200, "c13_rejected_400": 100}


# ======================================================================================= C12

DELTAS = [0.0, 0.0, 2.0 ** -44, -(2.0 ** -44), 1e-9, -1e-9, 1e-3, -1e-3, 1.0, -1.0]


NONFINITE = [float("nan"), float("inf"), float("-inf")]


def finite_shape(shape):
    return all(isinstance(v, (int, float)) and math.isfinite(v) for v in shape[1])


def tweak(rnd, shape):
    """New geometry derived from an old region: grown/shrunk/shifted by {0, +-ulp-ish, +-1e-9, +-1e-3, +-1}, or another type."""
    new = tweak_finite(rnd, shape)
    if rnd.random() < 0.05 and finite_shape(shape):
        # legal but extreme numbers (JSON carries them): a region of astronomic size far away does not cover the old one, one
        # around it does; squares of these magnitudes overflow
        m = rnd.choice([1e150, 1.5e154, 1e200, 1e300])
        cx, cy = (shape[1][0], shape[1][1])
        q = rnd.random()
        if q < 0.4:
            return ("circ", [cx + rnd.choice([3.0, -3.0, 2.0]) * m, cy, m])
        if q < 0.6:
            return ("circ", [cx, cy, m])
        if q < 0.8:
            return ("rect", [cx + m, cy - m, cx + 3 * m, cy + m])
        return ("rect", [-m, -m, m, m])
    if rnd.random() < 0.06:
        # the API does not validate numbers: NaN compares false with everything, infinities are legal floats
        p = list(new[1])
        p[rnd.randrange(len(p))] = rnd.choice(NONFINITE)
        return (new[0], p)
    return new


def tweak_finite(rnd, shape):
    kind, p = shape
    if not finite_shape(shape):
        return rand_shape(rnd)
    d = lambda: rnd.choice(DELTAS)      # noqa: E731
    k = rnd.random()
    if kind == "rect":
        x1, y1, x2, y2 = p
        if k < 0.5:
            return ("rect", [x1 - d(), y1 - d(), x2 + d(), y2 + d()])
        if k < 0.6:
            s = d()
            return ("rect", [x1 + s, y1, x2 + s, y2])
        if k < 0.65:
            return ("rect", [x2 + abs(d()), y2 + d(), x1 - d(), y1 - abs(d())])       # unordered corners
        # circumscribed circle (+ delta), or a circle about one end that covers only part of the rectangle (a shrink)
        cx, cy = (x1 + x2) / 2.0, (y1 + y2) / 2.0
        r = math.hypot(x2 - cx, y2 - cy)
        if k > 0.9:
            return ("circ", [x1, y1, r * rnd.choice([0.5, 1.0, 1.5]) + abs(d())])
        return ("circ", [cx + rnd.choice([0, 0, d()]), cy, r + d()])
    cx, cy, r = p
    if k < 0.45:
        return ("circ", [cx + rnd.choice([0, 0, d()]), cy + rnd.choice([0, 0, d()]), r + d()])
    if k < 0.6:
        s = d()
        return ("circ", [cx + s, cy, r + abs(s) + rnd.choice([0, 0, d()])])
    # bounding square (+ delta), or the inscribed square (a shrink)
    if k < 0.9:
        e = d()
        return ("rect", [cx - r - e, cy - r - e, cx + r + e, cy + r + e])
    h = r / math.sqrt(2)
    return ("rect", [cx - h, cy - h, cx + h, cy + h])


def probes_for(shape):
    kind, p = shape
    pts = []
    if not finite_shape(shape):
        return pts
    if kind == "rect":
        x1, y1, x2, y2 = min(p[0], p[2]), min(p[1], p[3]), max(p[0], p[2]), max(p[1], p[3])
        xs = [x1, x2, (x1 + x2) / 2.0, math.nextafter(x1, math.inf), math.nextafter(x2, -math.inf)]
        ys = [y1, y2, (y1 + y2) / 2.0, math.nextafter(y1, math.inf), math.nextafter(y2, -math.inf)]
        pts = [(x, y) for x in xs for y in ys]
    else:
        cx, cy, r = p
        pts = [(cx, cy), (cx + r, cy), (cx - r, cy), (cx, cy + r), (cx, cy - r)]
        for k in range(32):
            a = 2 * math.pi * k / 32
            for s in (1.0, 1 - 1e-12, 0.999, 0.7):
                pts.append((cx + s * r * math.cos(a), cy + s * r * math.sin(a)))
    return pts


def exact_margin(shape, px, py):
    """(signed exact margin, scale): margin >= 0 inside the closed region; for rect it is a length, for disc r^2-d^2."""
    kind, p = shape
    if not finite_shape(shape):
        # NaN anywhere: the region contains no point (every comparison is false); infinities: decided with float arithmetic,
        # which is exact for comparisons against +-inf
        if any((not isinstance(v, (int, float))) or v != v for v in p):
            return F(-1), F(1)         # NaN or no number at all: the region contains no point
        if kind == "rect":
            inside = min(p[0], p[2]) <= px <= max(p[0], p[2]) and min(p[1], p[3]) <= py <= max(p[1], p[3])
        else:
            inside = p[2] >= math.hypot(px - p[0], py - p[1])
        return (F(1), F(1)) if inside else (F(-1), F(1))
    if kind == "rect":
        x1, y1, x2, y2 = F(min(p[0], p[2])), F(min(p[1], p[3])), F(max(p[0], p[2])), F(max(p[1], p[3]))
        m = min(F(px) - x1, x2 - F(px), F(py) - y1, y2 - F(py))
        return m, max(abs(x1), abs(x2), abs(y1), abs(y2), abs(F(px)), abs(F(py)), F(1))
    cx, cy, r = F(p[0]), F(p[1]), F(p[2])
    if r < 0:
        return F(-1), F(1)
    dd = (F(px) - cx) ** 2 + (F(py) - cy) ** 2
    return r * r - dd, max(r * r, dd, F(1))


class C12(Monitor):
    prop = "C12"
    quick_cases = 800
    rule = ("request sequences add/update/delete during an active print with adversarial geometry: the new region is the old one "
            "grown/shrunk/shifted by {0, +-2^-44, +-1e-9, +-1e-3, +-1}, all four old/new type pairs (circumscribed circle, bounding and "
            "inscribed square), unordered corners; a probe set (extremes, next-after neighbours, boundary and interior points of "
            "every region ever defined) is evaluated with the real isPointExcluded before and after every request; a flip "
            "excluded -> not excluded is a violation when exact rational arithmetic confirms the point is inside an old region and "
            "outside every new region by more than 1e-9 relative; deletions must give 409 and a 409 must leave the list unchanged; "
            "non-trivial = sequence with >= 1 accepted and >= 1 refused update during a print; distinct by digest")
    assumptions = ["flips closer than 1e-9 relative to a border are counted as borderline, not judged"]


    def gen_case(self, rnd, tier, k):
        steps = []
        shapes = {}
        n = 0
        shrink = (rnd.random() < 0.15) if rnd.random() < 0.8 else rnd.choice(RAW_BOOLS)
        clear = rnd.random() < 0.4
        for _ in range(rnd.randint(1, 3)):
            n += 1
            shapes["r%d" % n] = rand_shape(rnd)
            steps.append(["api", "addExcludeRegion", payload_of(shapes["r%d" % n], "r%d" % n)])
        steps.append(["event", EV_START])
        if rnd.random() < 0.3:
            steps += enter_commands(shapes[sorted(shapes)[0]], True)
        hook_at = rnd.randint(2, 20) if rnd.random() < 0.15 else -1
        for _n in range(rnd.randint(4, 25)):
            if _n == hook_at:
                steps.append(["script", "gcode", "afterPrintDone"])      # the end script is rendered before the end event arrives
            t = rnd.random()
            if t < 0.7 and shapes:
                rid = rnd.choice(sorted(shapes))
                new = tweak(rnd, shapes[rid])
                steps.append(["api", "updateExcludeRegion", payload_of(new, rid), new])
                shapes[rid] = new if rnd.random() < 0.5 else shapes[rid]    # generator's belief only; the oracle reads the real list
            elif t < 0.8 and shapes:
                steps.append(["api", "deleteExcludeRegion", dict(id=rnd.choice(sorted(shapes)))])
            elif t < 0.90:
                n += 1
                shapes["r%d" % n] = rand_shape(rnd)
                steps.append(["api", "addExcludeRegion", payload_of(shapes["r%d" % n], "r%d" % n)])
            elif t < 0.92 and shapes:
                # an add that carries the id of an existing region (a retried request): refused, whatever its geometry
                rid = rnd.choice(sorted(shapes))
                new = tweak(rnd, shapes[rid])
                steps.append(["api", "addExcludeRegion", payload_of(new, rid), new])
            elif t < 0.935:
                # exclusion switched off / on by the file: the region list is protected all the same
                steps.append(["at", "ExcludeRegion", rnd.choice(["off", "disable", "on", "off"])])
            elif t < 0.95:
                steps.append(["event", rnd.choice(["PrintPaused", "PrintResumed"])])
            elif t < 0.975:
                # the setting changes during the print (any stored spelling of on/off; sometimes the same save carries a row
                # the plugin cannot convert)
                st = dict(shrink=rnd.choice(RAW_BOOLS), clear=clear)
                if rnd.random() < 0.3:
                    st["malformed"] = rnd.choice(["at-regex", "ext-key"])
                steps.append(["settings", st])
            else:
                steps.append(["event", rnd.choice(EV_END)])
                steps.append(["event", EV_START])
        return dict(settings=dict(shrink=shrink, clear=clear), steps=steps)

    @staticmethod
    def point_in_list(p, x, y):
        """Is the point excluded by the region list as it stands - through the real isPointExcluded while exclusion is enabled,
        through the real containsPoint of the listed regions while an @-command has it switched off (the list is what the
        property protects; it takes effect again with the next enable)."""
        try:
            if p.state.isExclusionEnabled():
                return bool(p.state.isPointExcluded(x, y))
            return any(r.containsPoint(x, y) for r in p.state.excludedRegions)
        except Exception:  # noqa: B902
            return False        # a membership test that raises excludes nothing (the filter's hook would fail the same way)

    @staticmethod
    def shapes_of(regions):
        out = []
        for r in regions:
            if r["type"] == "RectangularRegion":
                out.append(("rect", [r["x1"], r["y1"], r["x2"], r["y2"]]))
            else:
                out.append(("circ", [r["cx"], r["cy"], r["r"]]))
        return out

    def check_case(self, case):
        stats = collections.Counter()
        v = []
        p = Plugin(case["settings"])
        shrink = setting_bool(case["settings"].get("shrink"))
        active = False
        probes = []
        accepted = refused = 0

        def bad(i, st, kind, detail):
            v.append(dict(kind=kind, idx=i, cmd=repr(st[:3])[:240], detail=detail, mechanism=None))
        for i, st in enumerate(case["steps"]):
            if st[0] == "event":
                p.event(st[1])
                if st[1] == EV_START:
                    active = True
                elif st[1] in EV_END:
                    active = False
                continue
            if st[0] == "settings":
                p.write_settings(st[1])
                shrink = setting_bool(st[1].get("shrink"))
                stats["c12_settings_saves"] += 1
                continue
            if st[0] == "at":
                p.at(st[1], st[2])
                stats["c12_at_commands"] += 1
                continue
            if st[0] == "g":
                try:
                    p.gcode(st[1])
                except Exception:  # noqa: B902
                    pass
                if p.state.excluding:
                    stats["c12_steps_with_open_episode"] += 1
                continue
            if st[0] == "script":
                try:
                    p.script(st[1], st[2])
                except Exception:  # noqa: B902
                    pass
                stats["c12_script_hook_calls"] += 1
                continue
            cmd, data = st[1], st[2]
            before = p.regions()
            old_shapes = self.shapes_of(before)
            if cmd != "deleteExcludeRegion":
                probes += probes_for(("rect", [data["x1"], data["y1"], data["x2"], data["y2"]]) if data["type"] == "RectangularRegion"
                                     else ("circ", [data["cx"], data["cy"], data["r"]]))
                probes = probes[-1500:]
            guarded = active and not shrink
            inside_before = [self.point_in_list(p, x, y) for (x, y) in probes] if guarded else None
            resp = p.api(cmd, data)
            after = p.regions()
            stats["c12_requests"] += 1
            if not guarded:
                continue
            stats["c12_guarded_requests"] += 1
            if cmd == "deleteExcludeRegion":
                stats["c12_deletes"] += 1
                if not (isinstance(resp, tuple) and resp[1] == 409):
                    bad(i, st, "delete-accepted-during-print", "response %r" % (resp,))
            if cmd == "addExcludeRegion" and any(r.get("id") == data.get("id") for r in before):
                stats["c12_adds_with_existing_id"] += 1
                if not (isinstance(resp, tuple) and resp[1] == 409):
                    bad(i, st, "add-with-existing-id-accepted", "response %r" % (resp,))
            if isinstance(resp, tuple) and resp[1] == 409:
                refused += (cmd == "updateExcludeRegion")
                stats["c12_refused"] += 1
                if repr(after) != repr(before):        # repr: NaN-aware comparison
                    bad(i, st, "refused-request-changed-the-list", "%r -> %r" % (before, after))
            elif resp is None and cmd == "updateExcludeRegion":
                accepted += 1
                stats["c12_updates_accepted"] += 1
            new_shapes = self.shapes_of(after)
            for k, (x, y) in enumerate(probes):
                if not inside_before[k]:
                    continue
                stats["c12_probe_points_checked"] += 1
                if self.point_in_list(p, x, y):
                    continue
                # flipped (as observed through the real isPointExcluded): borderline only when exact arithmetic puts the point
                # within 1e-9 relative of a border of an old or a new region, where float rounding may decide either way
                near = False
                was_in = False
                for s in old_shapes:
                    m, scale = exact_margin(s, x, y)
                    if m >= 0:
                        was_in = True          # inside or exactly on the border of the closed old region: certainly excluded
                    elif -m <= F(1, 10 ** 9) * scale:
                        near = True            # just outside by exact arithmetic: float rounding may have said "inside"
                if was_in:
                    near = False
                for s in new_shapes:
                    m, scale = exact_margin(s, x, y)
                    if abs(m) <= F(1, 10 ** 9) * scale:
                        near = True            # on the border of a new region: may legitimately go either way
                if not near:
                    bad(i, st, "excluded-point-no-longer-excluded", "point (%r, %r) was excluded with regions %r and is not excluded "
                        "with regions %r; response %r" % (x, y, old_shapes, new_shapes, resp))
                    break
                stats["c12_borderline_flips"] += 1
            if v:
                break
        return dict(violations=v, nontrivial=(accepted >= 1 and refused >= 1 and not v), stats=stats, sets={},
                    sample=dict(settings=case["settings"], steps=[s[:3] for s in case["steps"][:10]]))

    def thresholds(self, tier):
        return {"c12_guarded_requests": 2000, "c12_updates_accepted": 300, "c12_refused": 300, "c12_deletes": 100,
                "c12_probe_points_checked": 100000}
