"""Debug helper: python -m vp.show C01 '<json case>' | @file ; prints the trace and the monitor's violations."""
import json, sys
from vp.runner import load_monitor
from vp.e2e import run_case

def main():
    pid = sys.argv[1]
    arg = sys.argv[2]
    case = json.load(open(arg[1:])) if arg.startswith("@") else json.loads(arg)
    if "case" in case and "steps" not in case:
        case = case["case"]
    mon = load_monitor(pid)
    if "steps" in case and not case.get("noshow"):
        try:
            tr = run_case(case)
            for r in tr.steps:
                print("%3d %-34s -> %-60s %s A=%s B=%s" % (r["idx"], r.get("cmd"), r.get("out") or r.get("sent"),
                      ("OPEN" if r["opened"] else "CLOSE" if r["closed"] else "in" if r["open_after"] else ""),
                      tuple(round(v, 4) for v in r["A_after"]["pos"]) + (round(r["A_after"]["e"], 4),),
                      tuple(round(v, 4) for v in r["B_after"]["pos"]) + (round(r["B_after"]["e"], 4),)))
            print("truncated:", tr.truncated, "first_div:", tr.first_div, "exc:", tr.exc)
        except Exception as exc:
            print("trace rendering failed:", exc)
    res = mon.check_case(case)
    for v in res["violations"]:
        print("VIOL", v.get("kind"), v.get("idx"), v.get("cmd"), v.get("detail"), "mech=", v.get("mechanism"))
    print("nontrivial:", res.get("nontrivial"))

if __name__ == "__main__":
    main()
