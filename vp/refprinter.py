"""Reference printer (Marlin >= 1.1 semantics for the codes the properties name) and an independent
RS274 word reader.  Shares no code with the plugin.  DESIGN.md section 2.3."""
import math
import re

# firmware style number: optional sign, digits with optional fraction, or leading-dot fraction; no exponent
NUM = r"[-+]?(?:\d+\.?\d*|\.\d+)"
# RS274: blanks and tabs may appear anywhere on a line and do not change its meaning
WORD = re.compile(r"([A-Za-z])[ \t]*(" + NUM + r")?")
CODE = re.compile(r"[ \t]*([GgMmTt])[ \t]*(\d+)(?:\.(\d+))?")


def tokenize(cmd):
    """Return (code, subcode, [(LETTER, float|None), ...]) or (None, None, []) for a non-command."""
    text = cmd.split(";", 1)[0]
    m = CODE.match(text)
    if not m:
        return None, None, []
    code = m.group(1).upper() + str(int(m.group(2)))
    sub = None if m.group(3) is None else int(m.group(3))
    words = []
    for w in WORD.finditer(text, m.end()):
        words.append((w.group(1).upper(), None if w.group(2) is None else float(w.group(2))))
    return code, sub, words


def last_values(words):
    """letter -> last numeric value given (valueless words ignored)."""
    d = {}
    for l, v in words:
        if v is not None:
            d[l] = v
    return d


class Printer(object):
    """Physical state of a cartesian printer driven by a G-code stream."""

    ARC_STEP = 0.05       # mm between physical path samples of an arc
    ARC_MAX_PTS = 40000

    def __init__(self, g90e=False, plugin_g92=False):
        self.g90e = g90e
        # plugin_g92: G92 X/Y/Z re-bases the frame the way the filter's AxisPosition.setLogicalOffsetPosition does on the unchanged
        # tree (recorded finding K2), so that this object predicts the filter's *tracked* frame exactly and anything beyond K2 shows
        self.plugin_g92 = plugin_g92
        self.pos = [0.0, 0.0, 0.0]      # physical mm
        self.shift = [0.0, 0.0, 0.0]    # G92 workspace shift (mm)
        self.e = 0.0                    # logical extruder coordinate, mm
        self.fil = 0.0                  # physical filament position (sum of deltas), mm
        self.hi = 0.0                   # high-water mark of fil
        self.abs_xyz = True
        self.abs_e = True
        self.unit = 1.0
        self.feed = 0.0
        self.fw_retracted = False
        self.fw_log = []                # (code, params, was_retracted_before)
        self.moves = []                 # dict per executed move
        self.homed = False
        self.ncmds = 0

    def depth(self):
        return self.hi - self.fil

    def logical(self, ax):
        return (self.pos[ax] - self.shift[ax]) / self.unit

    def to_native(self, ax, v):
        """Native coordinate of absolute logical value v on axis ax in the current frame."""
        return v * self.unit + self.shift[ax]

    def snapshot(self):
        return dict(pos=tuple(self.pos), e=self.e, fil=self.fil, hi=self.hi, depth=self.depth(),
                    abs_xyz=self.abs_xyz, abs_e=self.abs_e, unit=self.unit, fw=self.fw_retracted,
                    feed=self.feed, shift=tuple(self.shift))

    def _dest(self, words):
        dest = list(self.pos)
        e = self.e
        for l, v in words:
            if v is None:
                continue
            if l in "XYZ":
                ax = "XYZ".index(l)
                if self.abs_xyz:
                    dest[ax] = v * self.unit + self.shift[ax]
                else:
                    dest[ax] = self.pos[ax] + v * self.unit
            elif l == "E":
                e = v * self.unit if self.abs_e else self.e + v * self.unit
            elif l == "F":
                self.feed = v * self.unit
        return dest, e

    def execute(self, cmd):
        code, _sub, words = tokenize(cmd)
        if code is None:
            return
        self.ncmds += 1
        if code in ("G0", "G1"):
            dest, e = self._dest(words)
            self._move("lin", dest, e, [tuple(dest[:2])], cmd)
        elif code in ("G2", "G3"):
            self._arc(code, words, cmd)
        elif code == "G10":
            if any(l in "PL" for l, _ in words):
                return
            self.fw_log.append(("G10", self._params(cmd), self.fw_retracted))
            self.fw_retracted = True
        elif code == "G11":
            self.fw_log.append(("G11", self._params(cmd), self.fw_retracted))
            self.fw_retracted = False
        elif code == "G20":
            self.unit = 25.4
        elif code == "G21":
            self.unit = 1.0
        elif code == "G28":
            axes = ["XYZ".index(l) for l, _ in words if l in "XYZ"] or [0, 1, 2]
            frm = tuple(self.pos)
            for ax in axes:
                self.pos[ax] = 0.0
                self.shift[ax] = 0.0
            self.homed = True
            self.moves.append(dict(kind="home", frm=frm, to=tuple(self.pos), de=0.0, pts=[tuple(self.pos[:2])],
                                   depth_before=self.depth(), fw_before=self.fw_retracted, src=cmd,
                                   fil_before=self.fil, hi_before=self.hi))
        elif code == "G90":
            self.abs_xyz = True
            if self.g90e:
                self.abs_e = True
        elif code == "G91":
            self.abs_xyz = False
            if self.g90e:
                self.abs_e = False
        elif code == "M82":
            self.abs_e = True
        elif code == "M83":
            self.abs_e = False
        elif code == "G92":
            for l, v in words:
                if v is None:
                    continue
                if l in "XYZ":
                    ax = "XYZ".index(l)
                    if self.plugin_g92:
                        native = (v * self.unit + self.shift[ax]) if self.abs_xyz else (self.pos[ax] + v * self.unit)
                        self.shift[ax] += native - self.pos[ax]
                    else:
                        self.shift[ax] = self.pos[ax] - v * self.unit
                elif l == "E":
                    self.e = v * self.unit
        # every other code: no motion

    @staticmethod
    def _params(cmd):
        text = cmd.split(";", 1)[0]
        m = CODE.match(text)
        return " ".join(text[m.end():].split())

    def _arc(self, code, words, cmd):
        start = list(self.pos)
        dest, e = self._dest(words)
        d = last_values(words)
        cw = code == "G2"
        if "R" in d:
            r = d["R"] * self.unit
            dx, dy = dest[0] - start[0], dest[1] - start[1]
            dist = math.hypot(dx, dy)
            if r == 0 or dist == 0 or dist / 2 > abs(r):
                return
            ee = -1 if (cw ^ (r < 0)) else 1
            h = math.sqrt(max(0.0, r * r - dist * dist / 4))
            cx = (start[0] + dest[0]) / 2 + ee * h * (-dy / dist)
            cy = (start[1] + dest[1]) / 2 + ee * h * (dx / dist)
        else:
            i = d.get("I", 0.0) * self.unit
            j = d.get("J", 0.0) * self.unit
            if not (i or j):
                return
            cx, cy = start[0] + i, start[1] + j
        r = math.hypot(start[0] - cx, start[1] - cy)
        a0 = math.atan2(start[1] - cy, start[0] - cx)
        a1 = math.atan2(dest[1] - cy, dest[0] - cx)
        sweep = a1 - a0
        if cw:
            while sweep >= 0:
                sweep -= 2 * math.pi
        else:
            while sweep <= 0:
                sweep += 2 * math.pi
        if dest[0] == start[0] and dest[1] == start[1]:
            sweep = -2 * math.pi if cw else 2 * math.pi
        n = min(self.ARC_MAX_PTS, max(2, int(abs(sweep) * r / self.ARC_STEP) + 1))
        pts = [(cx + r * math.cos(a0 + sweep * k / n), cy + r * math.sin(a0 + sweep * k / n)) for k in range(1, n)]
        pts.append(tuple(dest[:2]))
        self._move("arc", dest, e, pts, cmd, centre=(cx, cy), radius=r, sweep=sweep)

    def _move(self, kind, dest, e, pts, cmd, **extra):
        de = e - self.e
        frm = tuple(self.pos)
        rec = dict(kind=kind, frm=frm, to=tuple(dest), de=de, pts=pts, depth_before=self.depth(),
                   fw_before=self.fw_retracted, src=cmd, fil_before=self.fil, hi_before=self.hi)
        rec.update(extra)
        self.pos = list(dest)
        self.e = e
        self.fil += de
        if self.fil > self.hi:
            self.hi = self.fil
        self.moves.append(rec)
