"""Harness layers around the REAL plugin classes (DESIGN.md section 2.1, 2.2, 2.6).

core layer   : ExcludeRegionState + GcodeHandlers, driven through handleGcode / handleAtCommand
plugin layer : a real ExcludeRegionPlugin with real OctoPrint settings, recording plugin manager
"""
import os
import sys
import logging
import math
import hashlib
import json

REPO = os.environ.get("VERIF_REPO", "/repo")
if REPO not in sys.path:
    sys.path.insert(0, REPO)

import warnings  # noqa: E402
warnings.simplefilter("ignore")

from octoprint_excluderegion.ExcludeRegionState import ExcludeRegionState  # noqa: E402
from octoprint_excluderegion.GcodeHandlers import GcodeHandlers  # noqa: E402
from octoprint_excluderegion.RectangularRegion import RectangularRegion  # noqa: E402
from octoprint_excluderegion.CircularRegion import CircularRegion  # noqa: E402
from octoprint_excluderegion.ExcludedGcode import ExcludedGcode  # noqa: E402
from octoprint_excluderegion.AtCommandAction import AtCommandAction  # noqa: E402

from .refprinter import tokenize  # noqa: E402

ANCHORED_SOURCES = ["__init__.py", "ExcludeRegionState.py", "GcodeHandlers.py", "GcodeParser.py",
                    "AxisPosition.py", "Position.py", "RetractionState.py", "StreamProcessor.py",
                    "RectangularRegion.py", "CircularRegion.py", "AtCommandAction.py", "ExcludedGcode.py",
                    "CommonMixin.py"]


def source_hashes():
    out = {}
    for name in ANCHORED_SOURCES:
        p = os.path.join(REPO, "octoprint_excluderegion", name)
        try:
            with open(p, "rb") as f:
                out[name] = hashlib.sha256(f.read()).hexdigest()[:16]
        except OSError:
            out[name] = None
    return out


def digest(obj):
    return hashlib.sha1(json.dumps(obj, sort_keys=True, default=repr).encode("utf-8")).hexdigest()[:14]


class _NullHandler(logging.Handler):
    def emit(self, record):
        # format the message so that broken log format strings surface as exceptions in C09
        record.getMessage()


def make_logger(debug=False, name=None):
    lg = logging.getLogger(name or ("vp.debug" if debug else "vp.silent"))
    lg.propagate = False
    lg.handlers = []
    lg.addHandler(_NullHandler())
    lg.setLevel(logging.DEBUG if debug else logging.INFO)      # OctoPrint's default level: INFO lines are formatted in production
    return lg


# ----------------------------------------------------------------------------- regions (harness view)

def norm_region(r):
    """Region tuple as the oracle sees it: ('rect', x1, y1, x2, y2, id) with ordered corners."""
    if r[0] == "rect":
        _, x1, y1, x2, y2, rid = r
        x1, y1, x2, y2 = float(x1), float(y1), float(x2), float(y2)
        return ("rect", min(x1, x2), min(y1, y2), max(x1, x2), max(y1, y2), rid)
    return ("circ", float(r[1]), float(r[2]), float(r[3]), r[4])


def as_given(v):
    """Value-preserving re-typing of a region number, the way a JSON client may send it: "110.5", 110 or "110" for 110.0.
    Chosen from the value itself, so that a replayed case sees the same types."""
    if not isinstance(v, float) or not math.isfinite(v):
        return v
    k = int(abs(v) * 10) % 7
    if k == 3:
        return repr(v)
    if k == 5 and v == int(v):
        return int(v)
    if k == 6 and v == int(v):
        return "%d" % v
    return v


def make_region(r):
    if r[0] == "rect":
        return RectangularRegion(x1=as_given(r[1]), y1=as_given(r[2]), x2=as_given(r[3]), y2=as_given(r[4]), id=r[5])
    return CircularRegion(cx=as_given(r[1]), cy=as_given(r[2]), r=as_given(r[3]), id=r[4])


def region_payload(r):
    if r[0] == "rect":
        return dict(type="RectangularRegion", x1=as_given(r[1]), y1=as_given(r[2]), x2=as_given(r[3]), y2=as_given(r[4]), id=r[5])
    return dict(type="CircularRegion", cx=as_given(r[1]), cy=as_given(r[2]), r=as_given(r[3]), id=r[4])


def depth_in(regions, x, y):
    """Signed depth of (x, y) in the union of closed regions: >= 0 inside, < 0 outside (mm)."""
    best = -float("inf")
    for r in regions:
        r = norm_region(r)
        if r[0] == "rect":
            d = min(x - r[1], r[3] - x, y - r[2], r[4] - y)
        else:
            d = r[3] - math.hypot(x - r[1], y - r[2])
        if d > best:
            best = d
    return best


def border_eps(x, y):
    return 1e-7 + 1e-12 * max(abs(x), abs(y), 1.0)


# ----------------------------------------------------------------------------- output normalisation

def normalise(result, cmd):
    """Hook result -> list of commands that reach the printer; raises ValueError for other shapes."""
    if result is None:
        return [cmd]
    if isinstance(result, tuple):
        if len(result) >= 1 and result[0] is None:
            return []
        if isinstance(result[0], str):
            return [result[0]]
        raise ValueError("unexpected tuple result %r" % (result,))
    if isinstance(result, str):
        return [result]
    if isinstance(result, list):
        out = []
        for item in result:
            if isinstance(item, tuple):
                item = item[0]
            if item is None:
                continue
            if not isinstance(item, str):
                raise ValueError("non-string list element %r" % (item,))
            out.append(item)
        return out
    raise ValueError("unexpected result %r" % (result,))


class FakeComm(object):
    def __init__(self, streaming=False):
        self.streaming = streaming
        self.sent = []

    def isStreaming(self):
        return self.streaming

    def sendCommand(self, cmd, **kwargs):
        self.sent.append(cmd)

    def take(self):
        s, self.sent = self.sent, []
        return s


# ----------------------------------------------------------------------------- contracts (wrap)

class Wrapped(object):
    """Records calls of a method; post(args, kwargs, result) -> list of failure strings."""

    def __init__(self, owner, name, post=None, record=False):
        self.owner, self.name, self.post, self.record = owner, name, post, record
        self.calls = 0
        self.failures = []
        self.log = []
        self.orig = getattr(owner, name)
        wrapper = self._make()
        setattr(owner, name, wrapper)

    def _make(self):
        me = self
        orig = self.orig

        def wrapper(*a, **kw):
            res = orig(*a, **kw)
            me.calls += 1
            if me.record:
                me.log.append((a, kw, list(res) if isinstance(res, list) else res))   # copy: the caller may mutate it
            if me.post is not None:
                try:
                    f = me.post(a, kw, res)
                except Exception as exc:  # the contract itself must never disturb the code under observation
                    f = ["contract evaluation error: %r" % (exc,)]
                if f:
                    me.failures.extend(f)
            return res
        return wrapper

    def undo(self):
        if isinstance(self.owner, type):
            setattr(self.owner, self.name, self.orig)
        else:
            delattr(self.owner, self.name)


# ----------------------------------------------------------------------------- settings for the core layer

DEFAULT_EXT = {"G4": "exclude", "M204": "merge", "M205": "merge", "M117": "last", "M73": "merge"}
DEFAULT_AT = [["ExcludeRegion", r"^\s*(enable|on)(\s|$)", "enable_exclusion"],
              ["ExcludeRegion", r"^\s*(disable|off)(\s|$)", "disable_exclusion"]]


def default_settings():
    return dict(g90e=False, enter=None, exit=None, ext=dict(DEFAULT_EXT), at=[list(a) for a in DEFAULT_AT],
                debug=False)


def apply_core_settings(state, s):
    state.g90InfluencesExtruder = bool(s.get("g90e", False))
    state.enteringExcludedRegionGcode = list(s["enter"]) if s.get("enter") else None
    state.exitingExcludedRegionGcode = list(s["exit"]) if s.get("exit") else None
    state.extendedExcludeGcodes = dict((g, ExcludedGcode(g, m, "vp")) for g, m in (s.get("ext") or {}).items())
    acts = {}
    for cmd, pat, action in (s.get("at") or []):
        acts.setdefault(cmd, []).append(AtCommandAction(cmd, pat, action, "vp"))
    state.atCommandActions = acts


def hook_gcode(cmd):
    """(gcode, subcode) the way OctoPrint hands them to the queuing hook: the code exactly as it is spelled in the command
    ("G01" stays "G01", the sub-code is text), "T" for tool changes.  (OctoPrint reports no code at all for a lower-case
    command letter; the harness reports the upper-case letter there, which only widens what the handlers are given.)"""
    from .refprinter import CODE
    m = CODE.match(cmd.split(";", 1)[0])
    if not m:
        return None, None
    letter = m.group(1).upper()
    if letter == "T":
        return "T", None
    return letter + m.group(2), m.group(3)


def setting_bool(v):
    """The value of an on/off setting as OctoPrint's boolean reader defines it (strings and numbers from a hand-edited file)."""
    if isinstance(v, bool):
        return v
    if v is None:
        return False
    if isinstance(v, (int, float)):
        return v != 0
    if isinstance(v, str):
        return v.lower() in ("true", "yes", "y", "1")
    return True


RAW_BOOLS = [True, False, True, False, "false", "no", "0", "off", "true", "yes", "1", "False", "TRUE", 0, 1, 2]


def hooked_state(state):
    """Read-only snapshot of the tracking state; raises AttributeError if a field disappeared."""
    p = state.position
    lr = state.lastRetraction
    return dict(
        x=p.X_AXIS.current, y=p.Y_AXIS.current, z=p.Z_AXIS.current, e=p.E_AXIS.current,
        abs_xyz=(p.X_AXIS.absoluteMode, p.Y_AXIS.absoluteMode, p.Z_AXIS.absoluteMode), abs_e=p.E_AXIS.absoluteMode,
        unit=(p.X_AXIS.unitMultiplier, p.Y_AXIS.unitMultiplier, p.Z_AXIS.unitMultiplier, p.E_AXIS.unitMultiplier),
        offset=(p.X_AXIS.offset, p.Y_AXIS.offset, p.Z_AXIS.offset, p.E_AXIS.offset),
        home=(p.X_AXIS.homeOffset, p.Y_AXIS.homeOffset, p.Z_AXIS.homeOffset),
        feed=state.feedRate, feedunit=state.feedRateUnitMultiplier,
        excluding=state.excluding, enabled=state._exclusionEnabled,
        lr=None if lr is None else (bool(lr.firmwareRetract), lr.extrusionAmount, bool(lr.recoverExcluded),
                                    bool(lr.allowCombine), lr.feedRate, lr.originalCommand),
        pending=[(k, (dict(v) if hasattr(v, "items") else v)) for k, v in state.pendingCommands.items()],
        lastpos=None if state.lastPosition is None else (state.lastPosition.X_AXIS.current,
                                                         state.lastPosition.Y_AXIS.current,
                                                         state.lastPosition.Z_AXIS.current),
        regions=[r.id for r in state.excludedRegions],
    )


def retraction_class(hs):
    """Abstract state of the retraction automaton (for coverage reporting)."""
    lr = hs["lr"]
    if lr is None:
        return (hs["excluding"], "none")
    return (hs["excluding"], "fw" if lr[0] else "e", lr[2], lr[3])


class Core(object):
    """Core layer: real state + handlers; commands enter through handleGcode / handleAtCommand."""

    def __init__(self, regions=(), settings=None, streaming=False):
        s = default_settings()
        s.update(settings or {})
        self.settings = s
        self.logger = make_logger(bool(s.get("debug")))
        self.state = ExcludeRegionState(self.logger)
        apply_core_settings(self.state, s)
        self.handlers = GcodeHandlers(self.state, self.logger)
        for r in regions:
            self.state.addRegion(make_region(r))
        self.comm = FakeComm(streaming)
        self.arc = Wrapped(self.handlers, "planArc", record=True)

    def add_region(self, r):
        self.state.addRegion(make_region(r))

    def api(self, command, data):
        """The one request the core layer models: a deletion (the plugin would refuse it during a print unless shrinking is allowed)."""
        if command == "deleteExcludeRegion":
            self.state.deleteRegion(data.get("id"))
            return None
        raise ValueError(command)

    def gcode(self, cmd):
        """Returns (raw result, normalised output list, arc samples or None)."""
        gc, sub = hook_gcode(cmd)
        if gc is None:
            return None, [cmd], None
        n0 = len(self.arc.log)
        raw = self.handlers.handleGcode(cmd, gc, sub)
        samples = None
        if len(self.arc.log) > n0:
            samples = list(self.arc.log[-1][2])
        return raw, normalise(raw, cmd), samples

    def at(self, cmd, params):
        self.comm.take()
        handled = self.handlers.handleAtCommand(self.comm, cmd, params)
        return handled, self.comm.take()

    def hooked(self):
        return hooked_state(self.state)


# ----------------------------------------------------------------------------- plugin layer

_PLUGIN_ENV = {}


def _plugin_env():
    """Process-wide OctoPrint settings singleton rooted in a throw-away directory under /verif/work."""
    if _PLUGIN_ENV:
        return _PLUGIN_ENV
    import tempfile
    import atexit
    import shutil
    base = os.path.join(os.path.dirname(os.path.dirname(os.path.abspath(__file__))), "work")
    os.makedirs(base, exist_ok=True)
    d = tempfile.mkdtemp(prefix="octo_", dir=base)
    atexit.register(shutil.rmtree, d, True)
    from octoprint.settings import settings as octoprint_settings
    octoprint_settings(init=True, basedir=d)
    import octoprint_excluderegion as M
    import flask
    _PLUGIN_ENV.update(module=M, dir=d, app=flask.Flask("vp"), settings=octoprint_settings)
    return _PLUGIN_ENV


def fresh_plugin_module():
    """Re-import the whole plugin package so that the next Plugin() is built from brand-new class objects: whatever an earlier
    plugin instance left behind at class or module level (a memo dict in a class body, a class attribute assigned through the class
    name, a module-level cache) is not there - as in a freshly started server.  Objects created before keep their old classes."""
    import importlib
    import sys as _sys
    env = _plugin_env()
    names = sorted(n for n in _sys.modules if n == "octoprint_excluderegion" or n.startswith("octoprint_excluderegion."))
    for n in names:
        del _sys.modules[n]                 # a plain re-import resolves the package's internal imports consistently, each once
    env["module"] = importlib.import_module("octoprint_excluderegion")
    return env["module"]


class StubUser(object):
    def __init__(self, anon=False):
        self.anon = anon

    def is_anonymous(self):
        return self.anon

    @property
    def is_authenticated(self):
        return not self.anon


class RecordingPluginManager(object):
    def __init__(self):
        self.messages = []

    def send_plugin_message(self, ident, data, *a, **kw):
        self.messages.append((ident, json.loads(json.dumps(data, default=repr))))

    def take(self):
        m, self.messages = self.messages, []
        return m


PLUGIN_SETTING_KEYS = ["clearRegionsAfterPrintFinishes", "mayShrinkRegionsWhilePrinting",
                       "enteringExcludedRegionGcode", "exitingExcludedRegionGcode",
                       "extendedExcludeGcodes", "atCommandActions"]


class Plugin(object):
    """Plugin layer: a real ExcludeRegionPlugin instance wired to recording stubs at OctoPrint's boundary."""

    def __init__(self, settings=None):
        env = _plugin_env()
        M = env["module"]
        from octoprint.plugin import plugin_settings
        self.M = M
        self.env = env
        # the way OctoPrint gets hold of the plugin: __plugin_load__() publishes the implementation and the hook table; a hook that
        # is not in the table is never called, an implementation that is not of the mixin type never gets events / requests
        M.__plugin_load__()
        unit = M.__plugin_implementation__
        table = M.__plugin_hooks__ or {}

        def hook(name):
            h = table.get(name)
            return h[0] if isinstance(h, tuple) else h
        self.h_gcode = hook("octoprint.comm.protocol.gcode.queuing")
        self.h_at = hook("octoprint.comm.protocol.atcommand.queuing")
        self.h_script = hook("octoprint.comm.protocol.scripts")
        import octoprint.plugin as OP
        self.is_event_handler = isinstance(unit, OP.EventHandlerPlugin)
        self.is_api = isinstance(unit, OP.SimpleApiPlugin)
        unit._identifier = "excluderegion"
        unit._logger = make_logger(bool((settings or {}).get("debug")), "octoprint.plugins.excluderegion.vp")
        unit._plugin_manager = RecordingPluginManager()
        unit._plugin_version = "vp"
        pre = unit.get_settings_preprocessors()
        unit._settings = plugin_settings(unit._identifier, unit.get_settings_defaults(), pre[0], pre[1])
        self.unit = unit
        self.user = StubUser(False)
        self.file_path = "part.gcode"
        M.current_user = self.user
        self.write_settings(settings or {}, fire=False)
        unit.initialize()
        self.pm = unit._plugin_manager
        self.comm = FakeComm(False)
        self.arc = Wrapped(unit.gcodeHandlers, "planArc", record=True)

    # -- settings: always write every key the histories depend on (the settings object is process-wide)
    def write_settings(self, s, fire=True):
        full = dict(clear=False, shrink=False, enter=None, exit=None, ext=dict(DEFAULT_EXT),
                    at=[list(a) for a in DEFAULT_AT], g90e=False, logmode="octoprint")
        full.update(s)
        self.settings = full
        st = self.unit._settings
        for key, name in (("clear", "clearRegionsAfterPrintFinishes"), ("shrink", "mayShrinkRegionsWhilePrinting")):
            if isinstance(full[key], bool):
                st.set_boolean([name], full[key])
            else:
                st.set([name], full[key])        # as found in a hand-edited config.yaml: "false", "0", 1, ...
            full[key] = setting_bool(full[key])  # what the setting *is*, as OctoPrint's boolean reader defines it
        st.set(["enteringExcludedRegionGcode"], full["enter"])
        st.set(["exitingExcludedRegionGcode"], full["exit"])
        at_list = [dict(command=c, parameterPattern=p, action=a, description="vp") for c, p, a in full["at"]]
        ext_list = [dict(gcode=g, mode=m, description="vp") for g, m in full["ext"].items()]
        bad = full.get("malformed")
        if bad == "at-regex":
            # a pattern typed into the settings dialog that is not a valid Python regex (sorts before "ExcludeRegion")
            at_list.append(dict(command="Bad", parameterPattern="(skip", action="enable_exclusion", description="vp"))
        elif bad == "ext-key":
            ext_list.append(dict(gcode="A1", mode="exclude"))      # row without a description (hand-edited file)
        st.set(["extendedExcludeGcodes"], ext_list)
        st.set(["atCommandActions"], at_list)
        st.set(["loggingMode"], full.get("logmode", "octoprint"))
        self.env["settings"]().setBoolean(["feature", "g90InfluencesExtruder"], bool(full["g90e"]))
        if fire and bad:
            # OctoPrint's event bus logs an exception raised by a subscriber and carries on
            try:
                self.event("SettingsUpdated")
            except Exception:  # noqa: B902
                self.swallowed_settings_errors = getattr(self, "swallowed_settings_errors", 0) + 1
        elif fire:
            self.event("SettingsUpdated")

    def event(self, name, payload=None):
        """Deliver an OctoPrint event with a realistic payload (file and print events carry name/path/origin)."""
        self.M.current_user = self.user
        if payload is None:
            payload = {}
            if name.startswith("Print") or name.startswith("File"):
                payload = dict(name=os.path.basename(self.file_path), path=self.file_path, origin="local", size=12345, owner=None)
                if name in ("PrintDone", "PrintFailed", "PrintCancelled"):
                    payload["time"] = 12.5
        elif "path" in payload:
            self.file_path = payload["path"]
        if self.is_event_handler:
            self.unit.on_event(name, dict(payload))

    def api(self, command, data, anon=False):
        self.user.anon = anon
        self.M.current_user = self.user
        try:
            if not self.is_api:
                return ("not an API plugin", 404)
            # OctoPrint hands the plugin the whole JSON body, which still carries the "command" key
            return self.unit.on_api_command(command, dict(data, command=command))
        finally:
            self.user.anon = False

    def api_get(self):
        with self.env["app"].app_context():
            return self.unit.on_api_get(None).get_json()

    def gcode(self, cmd):
        gc, sub = hook_gcode(cmd)
        n0 = len(self.arc.log)
        # OctoPrint's calling convention: sub-code and tags are keyword arguments
        raw = None if self.h_gcode is None else self.h_gcode(self.comm, "queuing", cmd, None, gc, subcode=sub, tags=self.next_tags())
        samples = list(self.arc.log[-1][2]) if len(self.arc.log) > n0 else None
        return raw, normalise(raw, cmd), samples

    def at(self, cmd, params):
        self.comm.take()
        res = None if self.h_at is None else self.h_at(self.comm, "queuing", cmd, params, tags=self.next_tags())
        return res, self.comm.take()

    def next_tags(self):
        """The tags OctoPrint attaches to a queued command: mostly a line of the printed file, now and then one sent through the
        API, by a script or by another plugin (a deterministic cycle, so that a replay sees the same tags)."""
        self.ntags = getattr(self, "ntags", 0) + 1
        n = self.ntags
        if n % 11 == 5:
            return {"source:api", "api:printer.command"}
        if n % 13 == 7:
            return {"source:script", "script:afterPrintResumed"}
        if n % 17 == 3:
            return {"source:plugin", "plugin:someother"}
        if n % 19 == 4:
            return set()
        return {"source:file", "filepos:%d" % (n * 23), "fileline:%d" % n}

    def script(self, stype, sname):
        return None if self.h_script is None else self.h_script(self.comm, stype, sname)

    @property
    def state(self):
        return self.unit.state

    def hooked(self):
        h = hooked_state(self.unit.state)
        h["active"] = self.unit._activePrintJob
        return h

    def regions(self):
        return [json.loads(json.dumps(r.toDict())) for r in self.unit.state.excludedRegions]
