#!/bin/sh
# usage: tools/revert_mutant.sh <commit-to-revert> <check ids...>   (natural mutants: one repair reverted)
sha="$1"; shift
wt=/tmp/wt_$$
git -C /repo worktree add -q --detach "$wt" HEAD || exit 3
( cd "$wt" && git -c core.autocrlf=false revert --no-commit "$sha" >/dev/null 2>&1 ) || { echo "revert of $sha failed"; git -C /repo worktree remove --force "$wt"; exit 3; }
for id in "$@"; do
  VERIF_REPO="$wt" /verif/check "$id" --no-evidence 2>&1 | grep -E "^(VIOLATION|INCONCLUSIVE|C[0-9]+ tier|  kind)" | head -4
done
git -C /repo worktree remove --force "$wt"
