#!/usr/bin/env python3
"""Round-4 brief: two cooperating sites / partial re-introduction of repaired defects."""
import sys, os, subprocess
pid, wt = sys.argv[1], sys.argv[2]
base = subprocess.check_output([sys.executable, os.path.join(os.path.dirname(__file__), "agent_prompt2.py"), pid, wt]).decode()
extra = """
- THIS ROUND, mutant 1: a change spread over TWO cooperating sites (two functions or two files) such that either edit alone leaves the behaviour correct, and only together they break the property (for example: one site stops copying an object, another starts mutating it; one site changes the meaning/units of a value, another consumer is not updated; one site reorders a state update, another reads the state earlier). Say in meta.json why each edit alone is harmless.
- THIS ROUND, mutant 2: the repository's `git log` shows a series of recent `fix:` commits. Re-introduce ONE of the repaired defects that is relevant to this property, but only PARTIALLY - in one branch, for one mode, for one type of command or under one condition - so that the scenario described in that fix's commit message still works while a neighbouring scenario is broken again. Do not simply revert the commit.
"""
print(base.replace("\nYour final message should be", extra + "\nYour final message should be"))
