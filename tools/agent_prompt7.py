#!/usr/bin/env python3
"""Round-7 brief: breakage located in the plugin class itself (the glue between OctoPrint and the filter)."""
import sys, os, subprocess
pid, wt = sys.argv[1], sys.argv[2]
base = subprocess.check_output([sys.executable, os.path.join(os.path.dirname(__file__), "agent_prompt2.py"), pid, wt]).decode()
extra = """
- THIS ROUND: both mutants must be located in octoprint_excluderegion/__init__.py (the ExcludeRegionPlugin class and the module-level registration code: __plugin_load__, __plugin_hooks__, initialize, the mixin methods, on_event, on_api_command / on_api_get and their _handle* helpers, _notifyExcludedRegionsChanged, get_settings_defaults / preprocessors, _handleSettingsUpdated, _splitGcodeScript, the three hook methods handleGcodeQueuing / handleAtCommandQueuing / handleScriptHook, the logging-mode code). Think about how OctoPrint really calls into a plugin (hook table and phases, positional vs keyword arguments, what the hooks may return, which events exist and what their payloads contain, how settings are stored and read, how API requests are authorised and answered, which thread does what) and break the property through that glue while keeping the change plausible as a refactoring, a compatibility tweak, a logging improvement or a robustness fix. Note that the three plugin test modules do not even collect in the pinned suite (BUILD_PY_DIR is unset), so nothing in this file is covered by a passing test - subtlety has to come from the change looking right and working in the common case.
"""
print(base.replace("\nYour final message should be", extra + "\nYour final message should be"))
