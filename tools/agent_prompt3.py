#!/usr/bin/env python3
"""Round-3 brief: as round 2, plus a request for 'pure refactoring' style changes with at least three trigger conditions."""
import sys, os, subprocess
pid, wt = sys.argv[1], sys.argv[2]
base = subprocess.check_output([sys.executable, os.path.join(os.path.dirname(__file__), "agent_prompt2.py"), pid, wt]).decode()
extra = """
- THIS ROUND: the change must look like a behaviour-preserving refactoring or micro-optimisation (caching a value, hoisting a computation, merging two branches, replacing a loop by a dict/set, reusing an object instead of copying it, reordering two statements, switching `is None` / truthiness / `==`, float vs int, early return) whose output is identical on the test-suite AND on ordinary slicer output (Cura / PrusaSlicer style files in absolute millimetres), and differs only when at least THREE conditions coincide (e.g. inch units + relative positioning + a Z-only move; a deferred code seen twice + a second episode + a print restart; an update request + equal ids + a degenerate region). State the three conditions explicitly in meta.json under "needs".
"""
print(base.replace("\nYour final message should be", extra + "\nYour final message should be"))
