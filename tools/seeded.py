#!/usr/bin/env python3
"""Confirm and archive a breaking change written by an independent sub-agent, and run checks against it.

  tools/seeded.py import <agent_dir>/MUTANT<k> <seeded-id> [--checks C01,C03]   confirm (tests unchanged, demo passes on the
                                              clean tree and fails with the change), copy to /verif/seeded/<id>/, run checks
  tools/seeded.py run <seeded-id>|all [--checks ...] [--tier quick]              re-run checks against archived changes

Every change is applied to a scratch worktree of /repo under /tmp (never to /repo itself); the worktree is removed afterwards.
"""
import json
import os
import shutil
import subprocess
import sys
import tempfile

ROOT = os.path.dirname(os.path.dirname(os.path.abspath(__file__)))
BASELINE = "21 failed, 416 passed, 3 errors"


def sh(cmd, **kw):
    p = subprocess.run(cmd, shell=True, stdout=subprocess.PIPE, stderr=subprocess.STDOUT, **kw)
    return p.returncode, p.stdout.decode("utf-8", "replace")


def worktree():
    wt = tempfile.mkdtemp(prefix="sv_", dir="/tmp")
    os.rmdir(wt)
    subprocess.check_call(["git", "-C", "/repo", "worktree", "add", "-q", "--detach", wt, "HEAD"])
    return wt


def drop(wt):
    subprocess.call(["git", "-C", "/repo", "worktree", "remove", "--force", wt])


def run_checks(wt, checks, tier="quick"):
    res = {}
    env = dict(os.environ, VERIF_REPO=wt, VERIF_REPLAY_DIR=os.path.join(wt, ".replays"))
    for cid in checks:
        p = subprocess.run([os.path.join(ROOT, "check"), cid, "--tier", tier, "--no-evidence"], env=env,
                           stdout=subprocess.PIPE, stderr=subprocess.STDOUT)
        out = p.stdout.decode("utf-8", "replace")
        kinds = sorted(set(l.split("kind=")[1].split()[0] for l in out.splitlines() if l.startswith("  kind=")))
        caught = p.returncode == 1 and "VIOLATION property=" in out
        res[cid] = ("CAUGHT " + ",".join(kinds)) if caught else "missed (exit %d)" % p.returncode
    return res


def confirm(src):
    wt = worktree()
    info = {}
    try:
        rc, out = sh("cd %s && git apply %s/patch.diff" % (wt, src))
        if rc:
            raise SystemExit("patch does not apply: " + out)
        rc, out = sh("cd %s && /venv/bin/python -m pytest -q -p no:cacheprovider --timeout=900 --continue-on-collection-errors 2>&1 | tail -1" % wt)
        info["tests_with_change"] = out.strip()
        rc1, out1 = sh("cd %s && PYTHONPATH=%s BUILD_PY_DIR=%s/.b /venv/bin/python %s/demo.py" % (wt, wt, wt, src), timeout=300)
        rc0, out0 = sh("cd /tmp && PYTHONPATH=/repo BUILD_PY_DIR=%s/.b0 /venv/bin/python %s/demo.py" % (wt, src), timeout=300)
        info["demo_exit_with_change"] = rc1
        info["demo_exit_clean_tree"] = rc0
        info["demo_output_with_change"] = out1.strip()[-600:]
        info["ok"] = (BASELINE in info["tests_with_change"]) and rc1 != 0 and rc0 == 0
    finally:
        drop(wt)
    return info


def check_against(sid, checks, tier):
    d = os.path.join(ROOT, "seeded", sid)
    wt = worktree()
    try:
        rc, out = sh("cd %s && git apply %s/patch.diff" % (wt, d))
        if rc:
            return {"error": "patch does not apply: " + out[-300:]}
        return run_checks(wt, checks, tier)
    finally:
        drop(wt)


def main():
    a = sys.argv[1:]
    checks = None
    tier = "quick"
    for x in list(a):
        if x.startswith("--checks="):
            checks = x.split("=", 1)[1].split(",")
            a.remove(x)
        if x.startswith("--tier="):
            tier = x.split("=", 1)[1]
            a.remove(x)
    if a[0] == "import":
        src, sid = os.path.abspath(a[1]), a[2]
        info = confirm(src)
        print(sid, "confirm:", json.dumps(info)[:900])
        if not info["ok"]:
            print("NOT KEPT")
            return 1
        d = os.path.join(ROOT, "seeded", sid)
        os.makedirs(d, exist_ok=True)
        for f in ("patch.diff", "demo.py"):
            shutil.copy(os.path.join(src, f), os.path.join(d, f))
        meta = json.load(open(os.path.join(src, "meta.json")))
        meta["confirmed_by_maintainer_of_verif"] = dict(
            ran="git apply patch.diff in a scratch worktree of /repo HEAD; baseline pytest command; demo.py with PYTHONPATH=<worktree> and with PYTHONPATH=/repo",
            tests_with_change=info["tests_with_change"], demo_exit_with_change=info["demo_exit_with_change"],
            demo_exit_clean_tree=info["demo_exit_clean_tree"])
        prop = meta.get("property")
        res = check_against(sid, checks or [prop], tier)
        meta["checks_run_against_it"] = res
        json.dump(meta, open(os.path.join(d, "meta.json"), "w"), indent=1)
        print(sid, "checks:", res)
        return 0
    if a[0] == "run":
        ids = sorted(os.listdir(os.path.join(ROOT, "seeded"))) if a[1] == "all" else a[1].split(",")
        for sid in ids:
            meta = json.load(open(os.path.join(ROOT, "seeded", sid, "meta.json")))
            res = check_against(sid, checks or [meta.get("property")], tier)
            print(sid, res, flush=True)
            if "--record" in sys.argv:
                meta.setdefault("checks_run_against_it", {}).update(res)
                json.dump(meta, open(os.path.join(ROOT, "seeded", sid, "meta.json"), "w"), indent=1)
        return 0


if __name__ == "__main__":
    sys.exit(main())
