#!/usr/bin/env python3
"""Own mutation table (DESIGN.md section 5): each mutant is applied to a scratch worktree of /repo (never to /repo itself),
the named checks are run against it with VERIF_REPO, and the worktree is removed.

  tools/mutants.py list
  tools/mutants.py run <name>|all [--tests] [--tier quick]
"""
import os
import subprocess
import sys
import tempfile

PKG = "octoprint_excluderegion/"
S, H, P, R, I, SP, RS, RR, CR, AX = (PKG + "ExcludeRegionState.py", PKG + "GcodeHandlers.py", PKG + "GcodeParser.py",
                                     PKG + "RetractionState.py", PKG + "__init__.py", PKG + "StreamProcessor.py",
                                     PKG + "RetractionState.py", PKG + "RectangularRegion.py", PKG + "CircularRegion.py",
                                     PKG + "AxisPosition.py")

# name: (checks expected to catch it, [(file, old, new), ...])
MUTANTS = {
    # ---- natural mutants: the repairs D1..D14 undone by hand where `git revert` conflicts
    "D1-stale-tracking-while-disabled": (["C14"], [(S, """        for index in range(0, len(xyPairs), 2):
            x = xAxis.setLogicalPosition(xyPairs[index])""", """        if (not self._exclusionEnabled):
            return False
        for index in range(0, len(xyPairs), 2):
            x = xAxis.setLogicalPosition(xyPairs[index])""")]),
    "D3-lastposition-after-entering-move": (["C03"], [(S, """            self.lastPosition = priorPosition
""", """            pass
""")]),
    # ---- seeded mutants
    "rect-open-right-edge": (["C17", "C01"], [(RR, "(x <= self.x2)", "(x < self.x2)")]),
    "circle-open": (["C17", "C01"], [(CR, "return self.r >= math.hypot", "return self.r > math.hypot")]),
    "ispointexcluded-first-region-only": (["C01"], [(S, """                if (region.containsPoint(x, y)):
                    return True
""", """                return region.containsPoint(x, y)
""")]),
    "exit-without-g92e": (["C04"], [(S, """        returnCommands.append(
            # Set logical extruder position
            "G92 E{e}".format(e=formatNumber(self.position.E_AXIS.nativeToLogical()))
        )

        relativeMode""", """        relativeMode""")]),
    "exit-z-order-swapped": (["C03"], [(S, "        if (newNativeZ > oldNativeZ):", "        if (newNativeZ < oldNativeZ):"),
                                       (S, "        if (newNativeZ < oldNativeZ):\n            # Move Z axis _down_",
                                        "        if (newNativeZ > oldNativeZ):\n            # Move Z axis _down_")]),
    "second-retraction-in-region-passes": (["C05"], [(S, """        elif (self.excluding):
            # A retraction was encountered that would have normally been combined""", """        elif (False):
            # A retraction was encountered that would have normally been combined""")]),
    "recover-flag-not-set": (["C05", "C04"], [(S, """                if (isRecoveryCommand):
                    self.lastRetraction.recoverExcluded = True""", """                if (isRecoveryCommand):
                    pass""")]),
    "disable-does-not-exit": (["C14"], [(S, """            if (self.excluding):
                returnCommands = self.exitExcludedRegion(context)""", """            if (False):
                returnCommands = self.exitExcludedRegion(context)""")]),
    "isstreaming-ignored": (["C14"], [(H, """        if (commInstance.isStreaming()):
            return False
""", """""")]),
    "inch-feed-not-converted": (["C07"], [(S, "            self.feedRate = feedRate * self.feedRateUnitMultiplier",
                                            "            self.feedRate = feedRate")]),
    "g1-z-only-not-tested": (["C01"], [(S, """        if (finalZ is not None):
            self.position.Z_AXIS.setLogicalPosition(finalZ)
            isMove = True""", """        if (finalZ is not None):
            self.position.Z_AXIS.setLogicalPosition(finalZ)
            isMove = bool([v for v in xyPairs if v is not None])
            if (not isMove and not self.excluding):
                return [cmd]""")]),
    "planarc-direction-flipped": (["C16", "C01"], [(H, "        if (clockwise):\n            angularTravel -= TWO_PI",
                                                    "        if (not clockwise):\n            angularTravel -= TWO_PI")]),
    "planarc-half-segments": (["C16"], [(H, "numSegments = max(1, int(math.ceil(arcLength / MM_PER_ARC_SEGMENT)))",
                                         "numSegments = max(1, int(math.ceil(arcLength / MM_PER_ARC_SEGMENT / 2)))")]),
    "g90-does-not-touch-y": (["C03", "C08"], [(PKG + "Position.py", """        self.Y_AXIS.setAbsoluteMode(absolute)
""", """""")]),
    "g28-keeps-offset": (["C03"], [(AX, "        self.current = 0\n        self.offset = 0", "        self.current = 0")]),
}


def crlf(s):
    return s.replace("\r\n", "\n").replace("\n", "\r\n").encode("utf-8")


def apply(wt, edits):
    for rel, old, new in edits:
        p = os.path.join(wt, rel)
        data = open(p, "rb").read()
        o, n = crlf(old), crlf(new)
        if data.count(o) != 1:
            raise SystemExit("mutant text matches %d times in %s: %r" % (data.count(o), rel, old[:60]))
        open(p, "wb").write(data.replace(o, n))


def run(name, tests=False, tier="quick", checks=None):
    expect, edits = MUTANTS[name]
    wt = tempfile.mkdtemp(prefix="wt_", dir="/tmp")
    os.rmdir(wt)
    subprocess.check_call(["git", "-C", "/repo", "worktree", "add", "-q", "--detach", wt, "HEAD"])
    try:
        apply(wt, edits)
        res = {}
        if tests:
            p = subprocess.run("cd %s && /venv/bin/python -m pytest -q -p no:cacheprovider --timeout=900 "
                               "--continue-on-collection-errors 2>&1 | tail -1" % wt, shell=True, stdout=subprocess.PIPE)
            res["tests"] = p.stdout.decode().strip()
        env = dict(os.environ, VERIF_REPO=wt, VERIF_REPLAY_DIR=wt + "/.replays")
        for cid in (checks or expect):
            p = subprocess.run(["/verif/check", cid, "--tier", tier, "--no-evidence"], env=env, stdout=subprocess.PIPE,
                               stderr=subprocess.STDOUT)
            out = p.stdout.decode()
            kinds = sorted(set(l.split("kind=")[1].split()[0] for l in out.splitlines() if l.startswith("  kind=")))
            res[cid] = ("CAUGHT" if (p.returncode == 1 and "VIOLATION property=" in out) else "missed(exit %d)" % p.returncode) + " " + ",".join(kinds)
        return res
    finally:
        subprocess.call(["git", "-C", "/repo", "worktree", "remove", "--force", wt])


def main():
    if len(sys.argv) < 2 or sys.argv[1] == "list":
        for k, (exp, _) in MUTANTS.items():
            print(k, exp)
        return
    names = list(MUTANTS) if sys.argv[2] == "all" else sys.argv[2].split(",")
    tests = "--tests" in sys.argv
    extra = [a.split("=")[1].split(",") for a in sys.argv if a.startswith("--checks=")]
    for n in names:
        print(n, run(n, tests, checks=extra[0] if extra else None), flush=True)


if __name__ == "__main__":
    main()
