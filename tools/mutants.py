#!/usr/bin/env python3
"""Own mutation table (DESIGN.md section 5): each mutant is applied to a scratch worktree of /repo (never to /repo itself),
the named checks are run against it with VERIF_REPO, and the worktree is removed.

  tools/mutants.py list
  tools/mutants.py run <name>|all [--tests] [--tier quick]
"""
import os
import subprocess
import sys
import tempfile

PKG = "octoprint_excluderegion/"
S, H, P, R, I, SP, RS, RR, CR, AX = (PKG + "ExcludeRegionState.py", PKG + "GcodeHandlers.py", PKG + "GcodeParser.py",
                                     PKG + "RetractionState.py", PKG + "__init__.py", PKG + "StreamProcessor.py",
                                     PKG + "RetractionState.py", PKG + "RectangularRegion.py", PKG + "CircularRegion.py",
                                     PKG + "AxisPosition.py")

# name: (checks expected to catch it, [(file, old, new), ...])
MUTANTS = {
    # ---- natural mutants: the repairs D1..D14 undone by hand where `git revert` conflicts
    "D1-stale-tracking-while-disabled": (["C14"], [(S, """        for index in range(0, len(xyPairs), 2):
            x = xAxis.setLogicalPosition(xyPairs[index])""", """        if (not self._exclusionEnabled):
            return False
        for index in range(0, len(xyPairs), 2):
            x = xAxis.setLogicalPosition(xyPairs[index])""")]),
    "D3-lastposition-after-entering-move": (["C03"], [(S, """            self.lastPosition = priorPosition
""", """            pass
""")]),
    # ---- seeded mutants
    "rect-open-right-edge": (["C17", "C01"], [(RR, "(x <= self.x2)", "(x < self.x2)")]),
    "circle-open": (["C17", "C01"], [(CR, "return self.r >= math.hypot", "return self.r > math.hypot")]),
    "ispointexcluded-first-region-only": (["C01"], [(S, """                if (region.containsPoint(x, y)):
                    return True
""", """                return region.containsPoint(x, y)
""")]),
    "exit-without-g92e": (["C04"], [(S, """        returnCommands.append(
            # Set logical extruder position
            "G92 E{e}".format(e=formatNumber(self.position.E_AXIS.nativeToLogical()))
        )

        relativeMode""", """        relativeMode""")]),
    "exit-z-order-swapped": (["C03"], [(S, "        if (newNativeZ > oldNativeZ):", "        if (newNativeZ < oldNativeZ):"),
                                       (S, "        if (newNativeZ < oldNativeZ):\n            # Move Z axis _down_",
                                        "        if (newNativeZ > oldNativeZ):\n            # Move Z axis _down_")]),
    "second-retraction-in-region-passes": (["C05"], [(S, """        elif (self.excluding):
            # A retraction was encountered that would have normally been combined""", """        elif (False):
            # A retraction was encountered that would have normally been combined""")]),
    "recover-flag-not-set": (["C05", "C04"], [(S, """                if (isRecoveryCommand):
                    self.lastRetraction.recoverExcluded = True""", """                if (isRecoveryCommand):
                    pass""")]),
    "disable-does-not-exit": (["C14"], [(S, """            if (self.excluding):
                returnCommands = self.exitExcludedRegion(context)""", """            if (False):
                returnCommands = self.exitExcludedRegion(context)""")]),
    "isstreaming-ignored": (["C14"], [(H, """        if (commInstance.isStreaming()):
            return False
""", """""")]),
    "inch-feed-not-converted": (["C07"], [(S, "            self.feedRate = feedRate * self.feedRateUnitMultiplier",
                                            "            self.feedRate = feedRate")]),
    "g1-z-only-not-tested": (["C01"], [(S, """        if (finalZ is not None):
            self.position.Z_AXIS.setLogicalPosition(finalZ)
            isMove = True""", """        if (finalZ is not None):
            self.position.Z_AXIS.setLogicalPosition(finalZ)
            isMove = bool([v for v in xyPairs if v is not None])
            if (not isMove and not self.excluding):
                return [cmd]""")]),
    "planarc-direction-flipped": (["C16", "C01"], [(H, "        if (clockwise):\n            angularTravel -= TWO_PI",
                                                    "        if (not clockwise):\n            angularTravel -= TWO_PI")]),
    "planarc-half-segments": (["C16"], [(H, "numSegments = max(1, int(math.ceil(arcLength / MM_PER_ARC_SEGMENT)))",
                                         "numSegments = max(1, int(math.ceil(arcLength / MM_PER_ARC_SEGMENT / 2)))")]),
    "g90-does-not-touch-y": (["C03", "C08"], [(PKG + "Position.py", """        self.Y_AXIS.setAbsoluteMode(absolute)
""", """""")]),
    "resetstate-keeps-pending": (["C10", "C06"], [(S, """        self.pendingCommands = OrderedDict()

    def getRegion""", """        self.pendingCommands = getattr(self, "pendingCommands", OrderedDict())

    def getRegion""")]),
    "resetstate-keeps-lastretraction": (["C10"], [(S, """        self.lastRetraction = None
        self.lastPosition = None
        self.pendingCommands""", """        self.lastRetraction = getattr(self, "lastRetraction", None)
        self.lastPosition = None
        self.pendingCommands""")]),
    "resetstate-keeps-exclusion-enabled": (["C10"], [(S, """        self._exclusionEnabled = True
        self.excluding = False
        self.excludeStartTime = None""", """        self._exclusionEnabled = getattr(self, "_exclusionEnabled", True)
        self.excluding = False
        self.excludeStartTime = None""")]),
    "resetstate-keeps-feedunit": (["C10"], [(S, """        self.feedRateUnitMultiplier = 1
""", """        self.feedRateUnitMultiplier = getattr(self, "feedRateUnitMultiplier", 1)
""")]),
    "paused-ends-job": (["C11"], [(I, """                Events.PRINT_CANCELLED,
                Events.ERROR
        )):""", """                Events.PRINT_CANCELLED,
                Events.PRINT_PAUSED,
                Events.ERROR
        )):""")]),
    "cancelling-does-not-end-job": (["C11"], [(I, """                Events.PRINT_CANCELLING,
""", """""")]),
    "inactive-still-tracks": (["C11"], [(I, """        if (gcode and self.isActivePrintJob):
            return self.gcodeHandlers.handleGcode(cmd, gcode, subcode)
""", """        if (gcode):
            result = self.gcodeHandlers.handleGcode(cmd, gcode, subcode)
            if (self.isActivePrintJob):
                return result
""")]),
    "clear-setting-ignored-on-error": (["C11"], [(I, """            if (self.clearRegionsAfterPrintFinishes):
                self.state.resetState(True)""", """            if (self.clearRegionsAfterPrintFinishes and event != Events.ERROR):
                self.state.resetState(True)""")]),
    "delete-allowed-while-printing": (["C12"], [(I, """        if (not self.mayShrinkRegionsWhilePrinting and self.isActivePrintJob):
            return "Cannot delete region while printing", 409
""", """""")]),
    "mustcontain-ignored": (["C12"], [(S, "if (mustContainOldRegion and not newRegion.containsRegion(region)):",
                                        "if (False and not newRegion.containsRegion(region)):")]),
    "circle-contains-rect-two-corners": (["C17", "C12"], [(CR, """                self.containsPoint(otherRegion.x1, otherRegion.y1) and
                self.containsPoint(otherRegion.x2, otherRegion.y1) and
                self.containsPoint(otherRegion.x2, otherRegion.y2) and""", """                self.containsPoint(otherRegion.x1, otherRegion.y1) and
                self.containsPoint(otherRegion.x2, otherRegion.y2) and""")]),
    "rect-contains-circle-ignores-radius-y": (["C17", "C12"], [(RR, "(otherRegion.cy + otherRegion.r <= self.y2)", "(otherRegion.cy <= self.y2)")]),
    "circle-contains-circle-ignores-distance": (["C17", "C12"], [(CR, "dist = math.hypot(self.cx - otherRegion.cx, self.cy - otherRegion.cy) + otherRegion.r",
                                                              "dist = otherRegion.r")]),
    "no-notification-on-update": (["C13"], [(I, """                not self.mayShrinkRegionsWhilePrinting and self.isActivePrintJob
            )
            self._notifyExcludedRegionsChanged()""", """                not self.mayShrinkRegionsWhilePrinting and self.isActivePrintJob
            )""")]),
    "duplicate-id-accepted": (["C13"], [(S, """        if (self.getRegion(region.id) is None):
            self._logger.info("New exclude region added: %s", region)""", """        if (True):
            self._logger.info("New exclude region added: %s", region)""")]),
    "anonymous-may-delete": (["C13"], [(I, """        if current_user.is_anonymous():
            return "Insufficient rights", 403
""", """        if current_user.is_anonymous() and command != "deleteExcludeRegion":
            return "Insufficient rights", 403
""")]),
    "update-appends-instead-of-replacing": (["C13"], [(S, """                self.excludedRegions[index] = newRegion
                return""", """                del self.excludedRegions[index]
                self.excludedRegions.append(newRegion)
                return""")]),
    "notify-before-clear": (["C13"], [(I, """            if (self.clearRegionsAfterPrintFinishes):
                self.state.resetState(True)
                self._notifyExcludedRegionsChanged()""", """            if (self.clearRegionsAfterPrintFinishes):
                self._notifyExcludedRegionsChanged()
                self.state.resetState(True)""")]),
    "pending-not-cleared": (["C06"], [(S, """                    returnCommands.append(cmdArgs)
            self.pendingCommands.clear()
""", """                    returnCommands.append(cmdArgs)
""")]),
    "last-keeps-first-position": (["C06"], [(S, """            self.pendingCommands.pop(gcode, None)
            self.pendingCommands[gcode] = cmd""", """            self.pendingCommands[gcode] = cmd""")]),
    "first-behaves-like-last": (["C06"], [(S, """            if (not (gcode in self.pendingCommands)):
                self.pendingCommands[gcode] = cmd""", """            if (True):
                self.pendingCommands[gcode] = cmd""")]),
    "exit-script-before-deferred": (["C06"], [(S, """        returnCommands = []

        if (self.pendingCommands):
            for gcode, cmdArgs in self.pendingCommands.items():""", """        returnCommands = []
        if (self.exitingExcludedRegionGcode is not None):
            returnCommands.extend(self.exitingExcludedRegionGcode)

        if (self.pendingCommands):
            for gcode, cmdArgs in self.pendingCommands.items():"""), (S, """            self.pendingCommands.clear()

        if (self.exitingExcludedRegionGcode is not None):
            returnCommands.extend(self.exitingExcludedRegionGcode)

        return returnCommands""", """            self.pendingCommands.clear()

        return returnCommands""")]),
    "enter-script-on-every-excluded-move": (["C06"], [(S, """        if (not self.excluding):
            returnCommands = self.enterExcludedRegion(cmd)
        else:
            returnCommands = []
""", """        if (not self.excluding):
            returnCommands = self.enterExcludedRegion(cmd)
        else:
            returnCommands = list(self.enteringExcludedRegionGcode or [])
""")]),
    "script-hook-ignores-name": (["C15"], [(I, """        if (scriptType == "gcode") and (scriptName == "afterPrintDone"):""", """        if (scriptType == "gcode"):""")]),
    "script-hook-ignores-type": (["C15"], [(I, """        if (scriptType == "gcode") and (scriptName == "afterPrintDone"):""", """        if (scriptName == "afterPrintDone"):""")]),
    "script-hook-keeps-excluding": (["C15"], [(I, """                return (self.state.exitExcludedRegion("Print done"), None)""", """                result = (self.state.exitExcludedRegion("Print done"), None)
                self.state.excluding = True
                return result""")]),
    "script-hook-ignores-active": (["C15"], [(I, """            if (self.isActivePrintJob and self.state.excluding):""", """            if (self.state.excluding):""")]),
    "g28-keeps-offset": (["C03"], [(AX, "        self.current = 0\n        self.offset = 0", "        self.current = 0")]),
    # ---- registration with OctoPrint (the harness goes through __plugin_load__ / __plugin_hooks__ and OctoPrint's calling convention)
    "at-hook-not-registered": (["C14"], [(I, """        "octoprint.comm.protocol.atcommand.queuing":
            __plugin_implementation__.handleAtCommandQueuing,
""", "")]),
    "script-hook-not-registered": (["C15", "C06"], [(I, """        "octoprint.comm.protocol.scripts":
            (__plugin_implementation__.handleScriptHook, 0),
""", "")]),
    "gcode-hook-registered-for-sending-phase": (["C01", "C03", "C06", "C15"], [(I, """        "octoprint.comm.protocol.gcode.queuing": __plugin_implementation__.handleGcodeQueuing""",
                                                             """        "octoprint.comm.protocol.gcode.sending": __plugin_implementation__.handleGcodeQueuing""")]),
    "gcode-hook-subcode-renamed": (["C01", "C06", "C15"], [(I, "self, commInstance, phase, cmd, cmdType, gcode, subcode=None, tags=None",
                                                   "self, commInstance, phase, cmd, cmdType, gcode, subCode=None, tags=None")]),
    # ---- beyond a recorded finding: K1 is recognised by its exact arithmetic, another wrong centre for an oblique chord is not K1
    "rform-centre-off-by-0.1pct-for-oblique-chords": (["C16"], [(H, "                centerY = midY + e * h * sy\n",
                                                                "                centerY = midY + e * h * sy * (1.001 if (deltaX * deltaY) else 1.0)\n")]),
    "not-an-event-handler": (["C11", "C13"], [(I, "        octoprint.plugin.EventHandlerPlugin\n", "        object\n")]),
}


def crlf(s):
    return s.replace("\r\n", "\n").replace("\n", "\r\n").encode("utf-8")


def apply(wt, edits):
    for rel, old, new in edits:
        p = os.path.join(wt, rel)
        data = open(p, "rb").read()
        o, n = crlf(old), crlf(new)
        if data.count(o) != 1:
            raise SystemExit("mutant text matches %d times in %s: %r" % (data.count(o), rel, old[:60]))
        open(p, "wb").write(data.replace(o, n))


def run(name, tests=False, tier="quick", checks=None):
    expect, edits = MUTANTS[name]
    wt = tempfile.mkdtemp(prefix="wt_", dir="/tmp")
    os.rmdir(wt)
    subprocess.check_call(["git", "-C", "/repo", "worktree", "add", "-q", "--detach", wt, "HEAD"])
    try:
        apply(wt, edits)
        res = {}
        if tests:
            p = subprocess.run("cd %s && /venv/bin/python -m pytest -q -p no:cacheprovider --timeout=900 "
                               "--continue-on-collection-errors 2>&1 | tail -1" % wt, shell=True, stdout=subprocess.PIPE)
            res["tests"] = p.stdout.decode().strip()
        env = dict(os.environ, VERIF_REPO=wt, VERIF_REPLAY_DIR=wt + "/.replays")
        for cid in (checks or expect):
            p = subprocess.run(["/verif/check", cid, "--tier", tier, "--no-evidence"], env=env, stdout=subprocess.PIPE,
                               stderr=subprocess.STDOUT)
            out = p.stdout.decode()
            kinds = sorted(set(l.split("kind=")[1].split()[0] for l in out.splitlines() if l.startswith("  kind=")))
            res[cid] = ("CAUGHT" if (p.returncode == 1 and "VIOLATION property=" in out) else "missed(exit %d)" % p.returncode) + " " + ",".join(kinds)
        return res
    finally:
        subprocess.call(["git", "-C", "/repo", "worktree", "remove", "--force", wt])


def main():
    if len(sys.argv) < 2 or sys.argv[1] == "list":
        for k, (exp, _) in MUTANTS.items():
            print(k, exp)
        return
    names = list(MUTANTS) if sys.argv[2] == "all" else sys.argv[2].split(",")
    tests = "--tests" in sys.argv
    extra = [a.split("=")[1].split(",") for a in sys.argv if a.startswith("--checks=")]
    for n in names:
        print(n, run(n, tests, checks=extra[0] if extra else None), flush=True)


if __name__ == "__main__":
    main()
