#!/usr/bin/env python3
"""Regenerate the table of DESIGN.md section 8.6 from seeded/*/meta.json (rows between the table header and the next blank line)."""
import json
import os
import re

ROOT = os.path.dirname(os.path.dirname(os.path.abspath(__file__)))
HEADER = "| id | what the change does | caught by | not caught by (also tried) |"


def rows():
    out = []
    for sid in sorted(os.listdir(os.path.join(ROOT, "seeded"))):
        m = json.load(open(os.path.join(ROOT, "seeded", sid, "meta.json")))
        res = m.get("checks_run_against_it", {})
        own = m.get("property")
        caught = sorted((c for c, r in res.items() if r.startswith("CAUGHT")), key=lambda c: (c != own, c))
        missed = sorted((c for c, r in res.items() if not r.startswith("CAUGHT")), key=lambda c: (c != own, c))
        summary = re.sub(r"\s+", " ", m.get("summary", "")).replace("|", "/")[:170]
        out.append("| %s | %s | %s | %s |" % (sid, summary, ", ".join(caught), ", ".join(missed) or "-"))
    return out


def main():
    p = os.path.join(ROOT, "DESIGN.md")
    lines = open(p).read().split("\n")
    i = lines.index(HEADER)
    j = i + 2
    while j < len(lines) and lines[j].startswith("| C"):
        j += 1
    new = rows()
    lines[i + 2:j] = new
    open(p, "w").write("\n".join(lines))
    own_missed = [r.split("|")[1].strip() for r in new if r.split("|")[1].strip()[:3] not in [c.strip() for c in r.split("|")[3].split(",")]]
    print("%d rows; not caught by the check of their own property: %s" % (len(new), ", ".join(own_missed)))


if __name__ == "__main__":
    main()
