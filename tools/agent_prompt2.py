#!/usr/bin/env python3
"""Round-2 brief: same as round 1 plus the list of mechanisms already used for this property (so new ones are found)."""
import json, sys, glob, os, subprocess
pid, wt = sys.argv[1], sys.argv[2]
base = subprocess.check_output([sys.executable, os.path.join(os.path.dirname(__file__), "agent_prompt.py"), pid, wt]).decode()
used = []
for d in sorted(glob.glob('/verif/seeded/%s*' % pid)):
    m = json.load(open(d + '/meta.json'))
    used.append("- " + m.get("summary", "").replace("\n", " ")[:300])
extra = """

ADDITIONAL REQUIREMENTS FOR THIS ROUND:
- These mechanisms have already been used by others for this property; do NOT reuse them or close variants:
%s
- Prefer mutants whose trigger is an INTERACTION: two features or settings combined (for example inch units + firmware retraction, relative positioning + a Z change on the entering move, a G92 E issued while retracted inside a region, an @-command arriving between a retraction and its recovery, a second region added while an episode is open, enter/exit scripts configured together with deferred codes, ...), or a particular numeric coincidence (equal values, a value of exactly 0, a sign), or state left behind by an earlier episode and only consumed by a later one. Each mutant should survive a tester who only tries every single feature in isolation.
- A change in a place nobody would think of for this property (a helper class, a constructor default, a copy constructor, a property setter) is welcome as long as it breaks the property as stated.
""" % ("\n".join(used) or "- (none)")
print(base.replace("Your final message should be", extra + "\nYour final message should be"))
