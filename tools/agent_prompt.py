#!/usr/bin/env python3
"""Prints the brief for a mutation sub-agent: only the property text and a scratch worktree (nothing from /verif)."""
import json, sys
pid, wt = sys.argv[1], sys.argv[2]
p = [json.loads(l) for l in open('/verif/properties.jsonl') if json.loads(l)['id'] == pid][0]
print(f"""You are helping to evaluate a verification effort for the OctoPrint plugin "OctoPrint-ExcludeRegionPlugin" (pure Python; it filters a G-code stream to suppress printing inside user-defined rectangular/circular regions, tracking axis position and retraction state).

Your own scratch git worktree of the repository is at {wt} (package: {wt}/octoprint_excluderegion, tests: {wt}/test). Work ONLY inside that directory. Do not read or modify /repo or /verif, and do not look for any verification machinery - your work must be independent of it.

Here is a semantic property the plugin is supposed to satisfy:

  id: {p['id']} - {p['title']}
  statement: {p['statement']}
  quantified over: {p['quantifier']['text']}
  anchored in: {', '.join(p['anchors']['files'])}

TASK: produce up to TWO different small source changes ("mutants") to the plugin, each of which BREAKS this property while the code still imports and the existing test-suite result is unchanged. Make them realistic (the kind of slip a maintainer could make in a refactoring or a "small improvement"), and SUBTLE: each must need something specific to manifest - e.g. a multi-step sequence of commands, an unusual but legal input, a particular state left over from earlier commands, a particular setting combination, or two cooperating sites that each look fine alone - NOT something that any ordinary print would expose at once. The two mutants should break the property through different mechanisms.

Rules:
- The test-suite baseline is: cd {wt} && /venv/bin/python -m pytest -q -p no:cacheprovider --timeout=900 --continue-on-collection-errors  -> "21 failed, 416 passed, 3 errors" (the 21 failures + 3 collection errors are pre-existing and unrelated). With each mutant applied the SAME 416 tests must still pass (check the summary line is identical; do not edit tests).
- All .py sources use CRLF line endings: preserve them (edit with care; `git diff` must only show your intended lines).
- Use /venv/bin/python (it has OctoPrint etc. installed). To import the plugin from your worktree use PYTHONPATH={wt}. A plain ExcludeRegionState(logger) + GcodeHandlers(state, logger) pair (see the tests for how they are constructed) is enough to drive G-code through handleGcode(cmd, gcode, subcode); axes must be homed with G28 before moves. Plugin-level behaviour can be driven like test/test_ExcludeRegionPlugin*.py do (they need the env var BUILD_PY_DIR to point to a writable directory).
- For each mutant k in (1, 2) create the directory {wt}/MUTANT{{k}}/ containing:
    patch.diff  - output of `git diff` for the source change only (must apply with `git apply` on a clean checkout of the same commit)
    demo.py     - a small self-contained program, run as `PYTHONPATH=<checkout> /venv/bin/python demo.py`, that exits 0 on the unchanged code and exits non-zero (printing what went wrong, in terms of the property) with the mutant applied
    meta.json   - {{"property": "{p['id']}", "summary": "...what the change does...", "needs": "...what specific situation is needed for it to manifest...", "ran": "...the commands you ran to confirm: tests unchanged, demo passes without / fails with the change..."}}
- After saving each mutant's files, REVERT the source change (git checkout -- octoprint_excluderegion) so the worktree ends clean except for the MUTANT directories. Verify demo.py exits 0 on the clean tree.
- Keep it efficient: read the anchored files, pick two mechanisms, implement, confirm. Do not write long reports.

Your final message should be a 5-10 line summary: for each mutant, the file/function changed, the mechanism, and what is needed to trigger it.""")
