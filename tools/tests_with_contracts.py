#!/venv/bin/python
"""DESIGN.md section 5.4: run the repository's own test-suite with the function-boundary contracts switched on.

A contract that fires there is either too strict or a defect the tests do not assert; each must be read before anything is
relaxed.  Usage: PYTHONPATH=/repo:/verif /venv/bin/python tools/tests_with_contracts.py
Prints the number of evaluations per contract, every failure, and the pytest summary (which must be unchanged).
"""
import collections
import math
import os
import sys

ROOT = os.path.dirname(os.path.dirname(os.path.abspath(__file__)))
REPO = os.environ.get("VERIF_REPO", "/repo")
sys.path[:0] = [REPO, ROOT]

from vp.monitors.arcs import ArcContract  # noqa: E402
from vp.monitors.geometry import exact_in_rect, exact_in_disc  # noqa: E402
from octoprint_excluderegion.GcodeHandlers import GcodeHandlers  # noqa: E402
from octoprint_excluderegion.RectangularRegion import RectangularRegion  # noqa: E402
from octoprint_excluderegion.CircularRegion import CircularRegion  # noqa: E402
from octoprint_excluderegion.GcodeParser import GcodeParser  # noqa: E402

EVALS = collections.Counter()
FAILS = []


def num(v):
    return isinstance(v, (int, float)) and not isinstance(v, bool) and math.isfinite(v)


def wrap(cls, name, post):
    orig = getattr(cls, name)

    def wrapper(self, *a, **kw):
        pre = post(self, a, kw, None, True)
        res = orig(self, *a, **kw)
        try:
            post(self, a, kw, (pre, res), False)
        except Exception as exc:  # noqa: B902
            FAILS.append("%s.%s: contract evaluation error %r" % (cls.__name__, name, exc))
        return res
    setattr(cls, name, wrapper)


def rect_point(self, a, kw, pr, is_pre):
    if is_pre:
        return None
    x, y = a[0], a[1]
    if not all(num(v) for v in (x, y, self.x1, self.y1, self.x2, self.y2)):
        return
    EVALS["RectangularRegion.containsPoint"] += 1
    if bool(pr[1]) != exact_in_rect(self.x1, self.y1, self.x2, self.y2, x, y):
        FAILS.append("RectangularRegion.containsPoint(%r, %r) on %r = %r" % (x, y, (self.x1, self.y1, self.x2, self.y2), pr[1]))


def circ_point(self, a, kw, pr, is_pre):
    if is_pre:
        return None
    x, y = a[0], a[1]
    if not all(num(v) for v in (x, y, self.cx, self.cy, self.r)):
        return
    EVALS["CircularRegion.containsPoint"] += 1
    want = exact_in_disc(self.cx, self.cy, self.r, x, y)
    if want is not None and bool(pr[1]) != want:
        FAILS.append("CircularRegion.containsPoint(%r, %r) on %r = %r" % (x, y, (self.cx, self.cy, self.r), pr[1]))


def parse_post(self, a, kw, pr, is_pre):
    if is_pre:
        return None
    src = self.source
    if not isinstance(src, str):
        return
    EVALS["GcodeParser.parse"] += 1
    if self.fullText != src[self.offset:self.offset + self.length]:
        FAILS.append("GcodeParser.parse: fullText %r differs from the consumed slice %r" % (self.fullText, src[self.offset:self.offset + self.length]))


def arc_post(self, a, kw, pr, is_pre):
    if is_pre:
        try:
            x = self.state.position.X_AXIS.nativeToLogical()
            y = self.state.position.Y_AXIS.nativeToLogical()
        except Exception:  # noqa: B902
            return None
        return (x, y) if num(x) and num(y) else None
    pre, res = pr
    args = list(a) + [kw[k] for k in ("endX", "endY", "i", "j", "clockwise") if k in kw]
    if pre is None or len(args) < 5 or not all(num(v) for v in args[:4]):
        return
    EVALS["GcodeHandlers.planArc"] += 1
    c = ArcContract.__new__(ArcContract)
    c.failures, c.skipped, c.last = [], 0, None
    c.check(pre[0], pre[1], args[0], args[1], args[2], args[3], bool(args[4]), list(res))
    FAILS.extend("GcodeHandlers.planArc%r from %r: %s" % (tuple(args[:5]), pre, f) for f in c.failures)


def handle_post(self, a, kw, pr, is_pre):
    if is_pre:
        return None
    res = pr[1]
    if type(res).__module__.startswith(("mock", "unittest")):
        return
    EVALS["GcodeHandlers.handleGcode"] += 1
    ok = res is None or (isinstance(res, tuple) and res == (None,)) or \
        (isinstance(res, list) and res and all(isinstance(x, str) and x for x in res))
    if not ok:
        FAILS.append("GcodeHandlers.handleGcode%r returned %r" % (a, res))


def main():
    wrap(RectangularRegion, "containsPoint", rect_point)
    wrap(CircularRegion, "containsPoint", circ_point)
    wrap(GcodeParser, "parse", parse_post)
    wrap(GcodeHandlers, "planArc", arc_post)
    wrap(GcodeHandlers, "handleGcode", handle_post)
    import pytest
    os.chdir(REPO)
    rc = pytest.main(["-q", "-p", "no:cacheprovider", "--timeout=900", "--continue-on-collection-errors", "-x" if False else "-q"])
    print("\ncontract evaluations during the test-suite:", dict(EVALS))
    print("contract failures: %d" % len(FAILS))
    for f in FAILS[:40]:
        print("  ", f)
    return 1 if FAILS else 0


if __name__ == "__main__":
    sys.exit(main())
