#!/usr/bin/env python3
"""Round-13 brief: breakage through Python idioms."""
import sys, os, subprocess
pid, wt = sys.argv[1], sys.argv[2]
base = subprocess.check_output([sys.executable, os.path.join(os.path.dirname(__file__), "agent_prompt2.py"), pid, wt]).decode()
extra = """
- THIS ROUND: both mutants must come from a PYTHON IDIOM used slightly wrongly, the kind of thing a reviewer waves through: `is` / `is not` on numbers or strings, truthiness tests where `is None` is meant (or the reverse), `or` / `and` used to pick defaults, chained comparisons, integer versus true division, `round()` (banker's rounding) or `int()` truncation, float equality, `in` on strings versus lists, tuple comparison, mutable default arguments, generators consumed twice, iterating over a list or dict while changing it, `dict.setdefault` / `get` with a shared mutable default, `sorted` / `min` / `max` with a key that ties, `zip` that silently truncates, slices off by one, `str.strip` with a character set, `str.format` / `%` with a value of another type, late-binding closures, `except` clauses that are too broad or too narrow, `finally` that overrides a return, `__eq__` without `__hash__`, class attributes that should be instance attributes, `copy.copy` where `deepcopy` is needed. The change must keep the code looking cleaner or more "pythonic" than before and must behave identically on ordinary input.
"""
print(base.replace("\nYour final message should be", extra + "\nYour final message should be"))
