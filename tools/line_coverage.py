#!/venv/bin/python
"""Which lines of the plugin do the monitors' workloads execute?  (stdlib only: sys.settrace on the package's files)

  PYTHONPATH=/repo:/verif /venv/bin/python tools/line_coverage.py [cases-per-check] [ids...]
Prints, per source file, the executable lines that no workload reached - the blind spots of the monitoring.
"""
import dis
import os
import random
import sys

ROOT = os.path.dirname(os.path.dirname(os.path.abspath(__file__)))
REPO = os.environ.get("VERIF_REPO", "/repo")
sys.path[:0] = [REPO, ROOT]
PKG = os.path.join(REPO, "octoprint_excluderegion") + os.sep

hit = {}


def tracer(frame, event, arg):
    fn = frame.f_code.co_filename
    if not fn.startswith(PKG):
        return None
    lines = hit.setdefault(fn, set())

    def local(frame, event, arg):
        if event == "line":
            lines.add(frame.f_lineno)
        return local
    lines.add(frame.f_lineno)
    return local


def executable_lines(path):
    src = open(path, encoding="utf-8").read()
    code = compile(src, path, "exec")
    out = set()
    stack = [code]
    while stack:
        c = stack.pop()
        for _, _, line in c.co_lines():
            if line is not None:
                out.add(line)
        stack.extend(k for k in c.co_consts if hasattr(k, "co_lines"))
    # drop docstring-only lines: a line whose only code is a constant expression statement
    return out


def main():
    n = int(sys.argv[1]) if len(sys.argv) > 1 else 150
    from vp.runner import MONITORS, load_monitor
    ids = sys.argv[2:] or sorted(MONITORS)
    sys.settrace(tracer)
    import threading
    threading.settrace(tracer)
    for pid in ids:
        mon = load_monitor(pid)
        mon.shard, mon.nshards = 0, 1
        if hasattr(mon, "begin"):
            mon.begin("quick")
        for k in range(n):
            rnd = random.Random("%s/cov/%d" % (pid, k))
            try:
                mon.check_case(mon.gen_case(rnd, "quick", k))
            except Exception as exc:  # noqa: B902
                print("!!", pid, k, repr(exc)[:200])
        for _, case in (mon.witnesses() if hasattr(mon, "witnesses") else []):
            mon.check_case(case)
    sys.settrace(None)
    total = miss = 0
    for name in sorted(os.listdir(PKG)):
        if not name.endswith(".py"):
            continue
        path = PKG + name
        ex = executable_lines(path)
        got = hit.get(path, set())
        missing = sorted(ex - got)
        total += len(ex)
        miss += len(missing)
        src = open(path, encoding="utf-8").read().splitlines()
        print("%-26s %4d executable, %4d not reached" % (name, len(ex), len(missing)))
        for ln in missing:
            text = src[ln - 1].strip()
            if text.startswith(('"""', "'''", "#")) or not text:
                continue
            print("      %4d  %s" % (ln, text[:110]))
    print("TOTAL %d executable lines, %d not reached (%.1f%% reached)" % (total, miss, 100.0 * (total - miss) / max(1, total)))


if __name__ == "__main__":
    main()
