#!/bin/sh
# usage: tools/sweep.sh <tier> <seed-from> <seed-to> [ids...]   -- runs checks for a range of VERIF_SEED values, summary lines only
tier="$1"; a="$2"; b="$3"; shift 3
ids="${*:-C01 C02 C03 C04 C05 C06 C07 C08 C09 C10 C11 C12 C13 C14 C15 C16 C17 C18 C19 C20}"
here="$(cd "$(dirname "$0")/.." && pwd)"
for s in $(seq "$a" "$b"); do
  for id in $ids; do
    VERIF_SEED=$s "$here/check" "$id" --tier "$tier" --no-evidence 2>&1 | grep -E "^(VIOLATION|INCONCLUSIVE|C[0-9]+ tier|  kind)" | sed "s/^/seed=$s /"
  done
done
