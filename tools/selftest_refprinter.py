#!/venv/bin/python
"""Self-test of the trusted base: the reference printer and reader must agree with themselves under re-encoding and with a few
hand-computed cases (Marlin semantics).  PYTHONPATH=/verif /venv/bin/python tools/selftest_refprinter.py"""
import math
import os
import random
import sys

sys.path.insert(0, os.path.dirname(os.path.dirname(os.path.abspath(__file__))))
from vp.refprinter import Printer, tokenize  # noqa: E402

fails = []


def check(cond, msg):
    if not cond:
        fails.append(msg)


def run(cmds, g90e=False):
    p = Printer(g90e)
    for c in cmds:
        p.execute(c)
    return p


# hand-computed cases
p = run(["G28", "G1 X10 Y20 Z0.3 E1.5 F1200"])
check(p.pos == [10.0, 20.0, 0.3] and p.e == 1.5 and p.fil == 1.5 and p.feed == 1200, "absolute move")
p = run(["G28", "G91", "G1 X10", "G1 X-2.5 Y4", "G90", "G1 Y1"])
check(p.pos[:2] == [7.5, 1.0], "relative then absolute")
p = run(["G28", "G20", "G1 X1 Y2", "G21", "G1 Z5"])
check(p.pos == [25.4, 50.8, 5.0], "inch units")
p = run(["G28", "G1 X50 Y50", "G92 X0 Y0", "G1 X-35 Y-35"])
check(p.pos[:2] == [15.0, 15.0], "G92 re-basing keeps the physical position and shifts the frame")
p = run(["G28", "G1 X10 Y10", "G92 X0", "G28 X"])
check(p.pos[0] == 0.0 and p.shift[0] == 0.0 and p.pos[1] == 10.0, "G28 X resets only X and its frame")
p = run(["G28", "G1 E5", "G1 E2", "G92 E0", "G1 E3"])
check(abs(p.fil - 5.0) < 1e-12 and abs(p.depth()) < 1e-12 and p.e == 3.0, "retract / G92 E / recover: filament and depth")
p = run(["G28", "G10", "G10 P1 S200", "G11 S1"])
check(p.fw_log == [("G10", "", False), ("G11", "S1", True)] and not p.fw_retracted, "G10/G11, G10 P is not a retraction")
p = run(["G28", "G1 X10 Y0", "G2 X0 Y10 I-10 J0"])     # clockwise from (10,0) to (0,10) about the origin: 270 degrees
m = p.moves[-1]
check(abs(m["sweep"] + 1.5 * math.pi) < 1e-9 and abs(m["radius"] - 10) < 1e-12, "G2 clockwise sweep")
p = run(["G28", "G1 X10 Y0", "G3 X0 Y10 I-10 J0"])     # counter-clockwise: 90 degrees
check(abs(p.moves[-1]["sweep"] - 0.5 * math.pi) < 1e-9, "G3 counter-clockwise sweep")
p = run(["G28", "G1 X0 Y0", "G2 X8 Y0 R5"])           # Marlin: clockwise, positive R -> centre below the chord
m = p.moves[-1]
check(abs(m["centre"][0] - 4) < 1e-9 and abs(m["centre"][1] + 3) < 1e-9, "R form centre (Marlin: e*h*(−dy, dx)/d)")
p = run(["G28", "G1 X5 Y5", "G2 I3 J0"])
check(abs(abs(p.moves[-1]["sweep"]) - 2 * math.pi) < 1e-12 and p.pos[:2] == [5.0, 5.0], "full circle")
p = run(["G28", "G91", "G1 E1", "G1 E1"], g90e=True)
check(p.e == 2.0 and p.fil == 2.0, "G91 makes E relative when G90 influences the extruder")
p = run(["G28", "G91", "G1 E1", "G1 E1"], g90e=False)
check(p.e == 1.0, "G91 leaves E absolute otherwise")
check(tokenize("g1 x-.5Y+5. e 3 ; c") == ("G1", None, [("X", -0.5), ("Y", 5.0), ("E", 3.0)]), "reader: spellings")
check(tokenize("G1 X1e3") == ("G1", None, [("X", 1.0), ("E", 3.0)]), "reader: no exponent, 'e3' is the next word")
check(tokenize("M204.1 S") == ("M204", 1, [("S", None)]), "reader: sub-code and valueless word")

# metamorphic: one abstract path, four encodings, same physical end points after every step
rnd = random.Random(1)
for case in range(300):
    pts = [(rnd.randint(0, 2000), rnd.randint(0, 2000), rnd.randint(1, 100)) for _ in range(rnd.randint(2, 15))]
    progs = {"abs": ["G28"], "rel": ["G28", "G91"], "inch": ["G28", "G20"], "g92": ["G28", "G1 X12.7 Y25.4", "G92 X0 Y0"]}
    cur = (0, 0, 0)
    for (x, y, z) in pts:
        progs["abs"].append("G1 X%.4f Y%.4f Z%.4f" % (x * .0254, y * .0254, z * .0254))
        progs["rel"].append("G1 X%.4f Y%.4f Z%.4f" % ((x - cur[0]) * .0254, (y - cur[1]) * .0254, (z - cur[2]) * .0254))
        progs["inch"].append("G1 X%.3f Y%.3f Z%.3f" % (x * .001, y * .001, z * .001))
        progs["g92"].append("G1 X%.4f Y%.4f Z%.4f" % (x * .0254 - 12.7, y * .0254 - 25.4, z * .0254))
        cur = (x, y, z)
    ends = dict((k, run(v).pos) for k, v in progs.items())
    for k, v in ends.items():
        check(max(abs(a - b) for a, b in zip(v, ends["abs"])) < 1e-6, "re-encoding %s ends at %r, absolute at %r" % (k, v, ends["abs"]))

# the harness's models of OctoPrint's side of the boundary, against the installed OctoPrint
check(tokenize("G1\tX1\tY 2") == ("G1", None, [("X", 1.0), ("Y", 2.0)]), "reader: tabs are blanks")
try:
    sys.path.insert(0, os.environ.get("VERIF_REPO", "/repo"))
    from vp.harness import hook_gcode, setting_bool, RAW_BOOLS, _plugin_env
    from vp.monitors.stream import strip_comment
    from octoprint.util.comm import gcode_and_subcode_for_cmd, strip_comment as octo_strip
    for cmd in ["G1 X1", "G01 X1", "G00", "M0117 hi", "G92.1", "M204.12 S1", "T1", "T", "G028 X", "  G1 X5", "G1X5Y6", "M117 G1 X5",
                "hello", "", "X5 G1", "N5 G1 X1", "G", "G.1"]:
        want = gcode_and_subcode_for_cmd(cmd)
        got = hook_gcode(cmd)
        if want[0] is None and got[0] is not None and cmd.lstrip()[:1] in "Nn":
            continue      # OctoPrint sends no line numbers through the hook
        check(tuple(want) == tuple(got), "hook_gcode(%r) = %r, OctoPrint says %r" % (cmd, got, want))
    for line in ["G1 X1 ; c", "M117 a\\; b ; c", "M117 a\\\\; b", ";", "G1 X1", "M117 \\", "a;b;c"]:
        check(octo_strip(line) == strip_comment(line), "strip_comment(%r)" % (line,))
    from vp.harness import normalise
    from octoprint.util.comm import _normalize_command_handler_result as octo_norm
    for res in [None, "M110", ("M110",), (None,), ["M110", "M117 x"], [("M110",), "M117 x"], [], ["M110", None], [(None,), "G1 X1"],
                [("G92 E1", "resync"), ("G0 X1 Y1",)], ("M110", "t"), [None], ["G1 X5"]]:
        want = [r[0] for r in octo_norm("G1 X5", None, "G1", None, None, res)]
        check(normalise(res, "G1 X5") == want, "normalise(%r) = %r, OctoPrint sends %r" % (res, normalise(res, "G1 X5"), want))
    env = _plugin_env()
    st = env["settings"]()
    for val in RAW_BOOLS + [None, 0.0, "y", "on", "", "No", "YES", 3.5]:
        st.set(["plugins", "vp_selftest", "flag"], val, force=True)
        got = st.getBoolean(["plugins", "vp_selftest", "flag"])
        check(bool(got) == setting_bool(val), "setting_bool(%r) = %r, OctoPrint reads %r" % (val, setting_bool(val), got))
except ImportError as exc:
    print("boundary self-test skipped (OctoPrint or the plugin not importable): %r" % (exc,))

print("reference printer self-test: %d failures" % len(fails))
for f in fails[:20]:
    print("  ", f)
sys.exit(1 if fails else 0)
