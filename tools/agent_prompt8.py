#!/usr/bin/env python3
"""Round-8 brief: breakage located in the small helper classes."""
import sys, os, subprocess
pid, wt = sys.argv[1], sys.argv[2]
base = subprocess.check_output([sys.executable, os.path.join(os.path.dirname(__file__), "agent_prompt2.py"), pid, wt]).decode()
extra = """
- THIS ROUND: both mutants must be located in the small helper modules rather than in the big ones: AxisPosition.py, Position.py, RetractionState.py, CommonMixin.py, ExcludedGcode.py, AtCommandAction.py, the constructors / copy paths / toDict / __eq__ / __repr__ parts of RectangularRegion.py and CircularRegion.py, StreamProcessor.py (including StreamProcessorComm and the eol handling), or module-level constants and regexes. Think about object identity versus equality, shallow versus deep copies (Position / AxisPosition objects are copied around a lot: lastPosition, the stream processor's state copy), default arguments, class-level versus instance-level attributes, unit conversion helpers (native / logical, offsets, inch factor), comparison and hashing helpers, JSON / dict conversion used for notifications, and what happens to these objects across several episodes, several prints, or several StreamProcessor instances. Do NOT simply re-break what the repository's own unit tests for these classes assert - read those tests first and find what they leave open.
"""
print(base.replace("\nYour final message should be", extra + "\nYour final message should be"))
