#!/usr/bin/env python3
"""Round-6 brief: breakage that needs unusual but legal spellings / numbers / geometry in the G-code or region data."""
import sys, os, subprocess
pid, wt = sys.argv[1], sys.argv[2]
base = subprocess.check_output([sys.executable, os.path.join(os.path.dirname(__file__), "agent_prompt2.py"), pid, wt]).decode()
extra = """
- THIS ROUND: both mutants must depend on the SHAPE OF THE DATA rather than on which commands follow which: an unusual but legal spelling of a G-code line (lower case, no blanks between words, tabs, leading zeros as in G01 / M0117, explicit plus signs, numbers like "5." or ".5" or "1e3"-looking text, repeated words, words without a value, very long numbers, sub-codes, N-numbers and checksums, comments with escapes, CR/LF variants, non-ASCII text), an unusual but legal numeric value (exact zero, negative zero, tiny or huge magnitudes, values exactly on a region border or exactly equal to a previously seen value, integers vs floats vs numeric strings in region data, regions that are degenerate, inverted, nested, identical or astronomically large), or unusual-but-legal settings that feed this property (empty lists, None scripts, zero retraction length, odd feed rates). The change itself should look like an innocent clean-up of how that data is read, normalised, compared, rounded, formatted, cached or copied. With ordinary slicer output (upper case, single blanks, bed-sized numbers with 3-5 decimals) everything must behave exactly as before.
"""
print(base.replace("\nYour final message should be", extra + "\nYour final message should be"))
