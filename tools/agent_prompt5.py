#!/usr/bin/env python3
"""Round-5 brief: breakage that needs unusual but legal configuration values, payloads or data shapes."""
import sys, os, subprocess
pid, wt = sys.argv[1], sys.argv[2]
base = subprocess.check_output([sys.executable, os.path.join(os.path.dirname(__file__), "agent_prompt2.py"), pid, wt]).decode()
extra = """
- THIS ROUND: both mutants must depend on the SHAPE OF DATA rather than on command sequences: an unusual but legal configuration value (settings lists that are empty, contain duplicates, lower-case or sub-coded G-codes, patterns that are None / empty / contain regex specials, scripts with odd line endings, numbers given as strings or ints), an unusual but legal API payload or event payload (missing optional keys, extra keys, ids of other types, numeric strings, very large / very small numbers), an unusual but legal text shape (unicode, tabs, very long lines, thousands of regions or commands), or the ORDER in which things were configured. The change itself should look like an innocent clean-up of how that data is read, normalised, compared, sorted, cached or copied. With the plugin's default configuration and ordinary payloads everything must behave as before.
"""
print(base.replace("\nYour final message should be", extra + "\nYour final message should be"))
